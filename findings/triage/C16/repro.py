"""
C16 triage: "phantom level".  History [stop 0; add 0; g = do_level(); next(g)] on a DefaultQueue.

With a pack that has an inferral (or initial) strategy the re-added, stopped label 0 travels
through `working` and `next_level`, forms a level of its own (queue_sizes == [1]) and do_level
finishes WITHOUT handing out anything and WITHOUT NoMoreClassesToExpandError.  With a pack without
inferral and initial strategies the same history raises NoMoreClassesToExpandError.

Run:  PYTHONPATH=/repo /venv/bin/python repro.py      exit 0 = behaviour present
"""
import sys

from comb_spec_searcher import AtomStrategy, StrategyPack
from comb_spec_searcher.class_queue import DefaultQueue
from comb_spec_searcher.exception import NoMoreClassesToExpandError
from example import ExpansionStrategy, RemoveFrontOfPrefix


def run(inferral):
    pack = StrategyPack(
        initial_strats=[],
        inferral_strats=[RemoveFrontOfPrefix()] if inferral else [],
        expansion_strats=[[ExpansionStrategy()]],
        ver_strats=[AtomStrategy()],
        name="p",
    )
    q = DefaultQueue(pack)
    q.set_stop_yielding(0)
    q.add(0)
    before = q.levels_completed
    gen = q.do_level()
    handed = []
    try:
        while True:
            handed.append(next(gen))
    except StopIteration:
        outcome = "generator finished"
    except NoMoreClassesToExpandError:
        outcome = "NoMoreClassesToExpandError"
    return outcome, handed, before, q.levels_completed, q.queue_sizes


with_inf = run(True)
without = run(False)
print("inferral pack   :", with_inf)
print("no inferral pack:", without)
present = (
    with_inf[0] == "generator finished"
    and with_inf[1] == []
    and with_inf[2:] == (0, 1, [1])
    and without[0] == "NoMoreClassesToExpandError"
    and without[4] == []
)
print("behaviour present:", present)
sys.exit(0 if present else 1)
