"""
C12 triage: for specifications containing a NON-EQUIVALENCE reverse rule Bijection.construct
returns a Bijection object whose map / inverse_map raise NotImplementedError for every object
whose parse passes through the reverse rule ("Cannot map forward for non equivalence rule.",
ReverseRule.forward_map, strategies/rule.py:1063).

The specification below is what RuleDBForest(reverse=True) hands out when a class is only
reachable as a child: X = all words over {a,b} avoiding aa is specified by the REVERSE of
"words with prefix b = b x X" (a Quotient rule); every other class by the example pack's rules.
It is valid (counts 1,2,3,5,8,...), and Isomorphism.check(spec, spec) is True.

Run:  PYTHONPATH=/repo /venv/bin/python repro.py      exit 0 = behaviour present
"""
import logging
import sys

import logzero

from comb_spec_searcher import AtomStrategy, CombinatorialSpecification
from comb_spec_searcher.isomorphism import Bijection, Isomorphism
from comb_spec_searcher.strategies.rule import ReverseRule
from example import AvoidingWithPrefix, ExpansionStrategy, RemoveFrontOfPrefix

logzero.loglevel(logging.ERROR)


def cls(prefix, just=False):
    return AvoidingWithPrefix(prefix, ["aa"], "ab", just)


def make_spec():
    X, W = cls(""), cls("b")
    rules = [
        RemoveFrontOfPrefix()(W).to_reverse_rule(1),  # X = W / b      (reverse of W = b x X)
        ExpansionStrategy()(W),                        # W = {b} + Wba + Wbb
        RemoveFrontOfPrefix()(cls("ba")),              # Wba = b x Xa
        RemoveFrontOfPrefix()(cls("bb")),              # Wbb = bb x X
        ExpansionStrategy()(cls("a")),                 # Xa = {a} + Xaa (empty) + Xab
        RemoveFrontOfPrefix()(cls("ab")),              # Xab = ab x X
    ]
    assert isinstance(rules[0], ReverseRule) and rules[0].comb_class == X and not rules[0].is_equivalence()
    atoms = [AtomStrategy()(cls(p, True)) for p in ("b", "a", "ab", "bb")]
    return CombinatorialSpecification(X, rules + atoms)


spec1, spec2 = make_spec(), make_spec()
truth = [sum(1 for _ in spec1.root.objects_of_size(n)) for n in range(8)]
counts = [spec1.count_objects_of_size(n) for n in range(8)]
print("counts", counts, "truth", truth)
assert counts == truth

print("Isomorphism.check(spec1, spec2):", Isomorphism.check(spec1, spec2))
bij = Bijection.construct(spec1, spec2)
print("Bijection.construct returned:", type(bij).__name__)
if bij is None:
    print("no bijection object is returned (nothing is claimed): behaviour absent")
    sys.exit(1)

outcomes = {}
for n in range(4):
    for obj in spec1.root.objects_of_size(n):
        for name, f in (("map", bij.map), ("inverse_map", bij.inverse_map)):
            try:
                img = f(obj)
                outcomes[(name, str(obj))] = "-> %r" % str(img)
            except NotImplementedError as exc:
                outcomes[(name, str(obj))] = "NotImplementedError(%s)" % exc
for k, v in sorted(outcomes.items()):
    print("  %-12s %-5r %s" % (k[0], k[1], v))
present = all(v.startswith("NotImplementedError") for v in outcomes.values())
print("a bijection object was returned and every map/inverse_map call raises NotImplementedError:", present)
sys.exit(0 if present else 1)
