"""C20, open finding reverse-equation-unmapped-child-parameter (what fix FIXHASH_EQ leaves of the
unmapped-child-parameter defect).

PYTHONPATH=/repo /venv/bin/python findings/c20_reverse_equation_unmapped_child_parameter.py  (exit 1 = defect present)

Complement.get_equation / Quotient.get_equation write their own equation  F_child = F_parent - F_sibling - ..
(resp. / ..) whenever every DICTIONARY of the original rule is empty -- also when the children carry statistics
that no parameter of the parent is mapped to.  The functions of the children then keep their own variables on
both sides, although the rule sums those statistics out: the equation is not satisfied by the true series.
(With a non-empty dictionary the methods raise NotImplementedError and ReverseRule falls back to the original
rule's equation, which is right since fix FIXHASH_EQ.)  Uses the word classes of /repo/example.py."""
import sys

import sympy

from example import AvoidingWithPrefix, ExpansionStrategy


class SW(AvoidingWithPrefix):
    def __init__(self, prefix, patterns, alphabet, just_prefix=False, stats=()):
        super().__init__(prefix, patterns, alphabet, just_prefix)
        self.stats = tuple(stats)

    @property
    def extra_parameters(self):
        return tuple(n for n, _ in self.stats)

    def get_parameters(self, obj):
        return tuple(obj.count(l) for _, l in self.stats)

    def get_minimum_value(self, parameter):
        return 0

    def possible_parameters(self, n):
        import itertools

        for vals in itertools.product(range(n + 1), repeat=len(self.stats)):
            yield dict(zip(self.extra_parameters, vals))

    def objects_of_size(self, size, **parameters):
        yield from super().objects_of_size(size)

    def __eq__(self, o):
        return isinstance(o, SW) and AvoidingWithPrefix.__eq__(self, o) and self.stats == o.stats

    def __hash__(self):
        return hash((AvoidingWithPrefix.__hash__(self), self.stats))


class Expand(ExpansionStrategy):
    """the parent tracks nothing, the children that are not the one-word class track e = number of a's"""

    def decomposition_function(self, c):
        kids = ExpansionStrategy.decomposition_function(self, c)
        if kids is None:
            return None
        return tuple(SW(k.prefix, k.patterns, k.alphabet, k.just_prefix, () if k.just_prefix else (("e", "a"),)) for k in kids)

    def extra_parameters(self, c, children=None):
        return tuple({} for _ in self.decomposition_function(c))


def series(cls, args, order):
    out = 0
    for n in range(order + 1):
        for w in cls.objects_of_size(n):
            t = args[0] ** n
            for a, v in zip(args[1:], cls.get_parameters(w)):
                t *= a ** v
            out += t
    return out


def holds(eq, classes, order=6):
    from sympy.core.function import AppliedUndef

    x = sympy.var("x")
    m = {f: series(classes[int(f.func.__name__[2:])], f.args, order) for f in eq.atoms(AppliedUndef)}
    d = sympy.expand(eq.lhs.xreplace(m) - eq.rhs.xreplace(m))
    return d == 0 or all(sympy.degree(t, x) > order for t in sympy.Add.make_args(d))


parent = SW("", ["aba"], ["a", "b"], False, ())
rule = Expand()(parent)
rev = rule.to_reverse_rule(1)          # counts the child "words starting with a"
classes = {0: parent}
for c in rule.children:
    classes[len(classes)] = c
label = {c: i for i, c in classes.items()}.__getitem__
eq = rev.get_equation(lambda c: c.get_function(label))
ok = holds(eq, classes)
print("reverse rule emits %s   satisfied by the true series: %s" % (eq, ok))
print("with e := 1            %s   satisfied: %s" % (eq.subs(sympy.var("e"), 1), holds(eq.subs(sympy.var("e"), 1), classes)))
fwd = rule.get_equation(lambda c: c.get_function(label))
print("the original rule emits %s   satisfied: %s" % (fwd, holds(fwd, classes)))
sys.exit(0 if ok else 1)
