"""
RuleDBForgetStrategy cannot hand back the strategy of a stored rule that a StrategyFactory produced
for ANOTHER class than the one it was applied to (the searcher supports such rules:
_expand_class_with_strategy labels rule.comb_class), so get_specification() raises where the default
RuleDB returns the specification.

Run:  PYTHONPATH=/repo /venv/bin/python forget_foreign_parent.py
Exit code 0 = the two databases behave the same (property holds); 1 = they do not.
"""
import logging
import sys

import logzero

from comb_spec_searcher import AtomStrategy, CombinatorialSpecificationSearcher, StrategyPack
from comb_spec_searcher.rule_db import RuleDB, RuleDBForgetStrategy
from comb_spec_searcher.strategies.strategy import StrategyFactory
from example import AvoidingWithPrefix, ExpansionStrategy, RemoveFrontOfPrefix

logzero.loglevel(logging.ERROR)


class ExpandEmptyPrefix(ExpansionStrategy):
    """ExpansionStrategy restricted to classes with the empty prefix."""

    def decomposition_function(self, c):
        if c.prefix:
            return None
        return super().decomposition_function(c)


def swap(w):
    return "".join("b" if x == "a" else "a" for x in w)


class SwappedExpansionFactory(StrategyFactory):
    """Applied to the class with prefix p it yields the expansion RULE of the class with prefix swap(p):
    a ready rule whose parent is not the class the factory was called on."""

    def __call__(self, comb_class):
        if comb_class.prefix and not comb_class.just_prefix:
            other = AvoidingWithPrefix(swap(comb_class.prefix), comb_class.patterns, comb_class.alphabet)
            yield ExpansionStrategy()(other)

    @classmethod
    def from_dict(cls, d):
        return cls()

    def __repr__(self):
        return "SwappedExpansionFactory()"

    def __str__(self):
        return "expansion of the class with the letters of the prefix exchanged"


def pack():
    return StrategyPack(
        initial_strats=[RemoveFrontOfPrefix(), ExpandEmptyPrefix()],
        inferral_strats=[],
        expansion_strats=[[SwappedExpansionFactory()]],
        ver_strats=[AtomStrategy()],
        name="foreign parent",
    )


def run(ruledb):
    start = AvoidingWithPrefix("", ["aa", "bb"], ["a", "b"])
    css = CombinatorialSpecificationSearcher(start, pack(), ruledb=ruledb)
    try:
        spec = css.auto_search()
        counts = [spec.count_objects_of_size(n) for n in range(8)]
        return "specification with %d rules, counts %r" % (spec.number_of_rules(), counts), css
    except Exception as ex:  # pylint: disable=broad-except
        return "%s: %s" % (type(ex).__name__, str(ex).split("\n")[0][:100]), css


if __name__ == "__main__":
    a, css_a = run(RuleDB())
    b, css_b = run(RuleDBForgetStrategy())
    print("RuleDB               :", a)
    print("RuleDBForgetStrategy :", b)
    same_keys = sorted(css_a.ruledb) == sorted(css_b.ruledb)
    print("same stored rules    :", same_keys)
    bad = []
    for key in sorted(css_b.ruledb.rule_to_strategy):
        try:
            css_b.ruledb.rule_to_strategy[key]
        except RuntimeError:
            bad.append((key, css_a.ruledb.rule_to_strategy[key]))
    for key, strat in bad:
        print("rule_to_strategy[%r]: RuleDB hands back %r, RuleDBForgetStrategy raises RuntimeError" % (key, strat))
    sys.exit(0 if (a == b and not bad) else 1)
