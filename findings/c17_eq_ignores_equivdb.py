"""
C17 finding (open): the library's `==` is not a usable notion of "the restored searcher equals the original".

RuleDBBase.__eq__ ("Check if all stored information is the same") compares rule_to_strategy and
eqv_rule_to_strategy only.  It never looks at self.equivdb (union-find, verified roots, the two edge
tables) nor at the pruned dictionary; EquivalenceDB.__eq__ - which nothing calls from there - in turn ignores
_one_way_vertices.  CombinatorialSpecificationSearcher.__eq__ compares the instance dicts, i.e. delegates to it.

Consequences, shown below on the repository's own example classes (words over {a,b,c} avoiding "aa",
example.py's RemoveFrontOfPrefix / ExpansionStrategy / AtomStrategy plus two one-way relabellings of the letters
in a second expansion set, so that classes get verified by pruning while work packets for them are still queued;
RuleDB and RuleDBForgetStrategy):

 1. two searchers that the library calls EQUAL go through DIFFERENT work under the same further calls:
    take a searcher after k work packets and a pickled copy of it; ask the copy `ruledb.has_specification()`
    (this marks the labels of the pruned dictionary verified and connects cycles - a state the search itself
    reaches at every auto_search slice).  `copy == original` is True, yet the next packets differ: the copy
    skips the classes that are now verified.
 2. hence `restored == original` - the first clause of property C17 as the library can express it, and what
    tests/test_pickle.py asserts - cannot detect a restore that loses the verified set or the equivalences:
    resetting `equivdb.verified_roots` (or dropping `_one_way_vertices`, seed C17a) on a restored searcher
    leaves it `==` to the original although it then expands different classes.

Run:  PYTHONPATH=/repo /venv/bin/python findings/c17_eq_ignores_equivdb.py     (exit 1 = the defect is present)
"""
import logging
import pickle
import sys

import logzero

from comb_spec_searcher import AtomStrategy, CombinatorialSpecificationSearcher, StrategyPack
from comb_spec_searcher.rule_db import RuleDB, RuleDBForgetStrategy
from comb_spec_searcher.strategies.strategy import DisjointUnionStrategy
from example import AvoidingWithPrefix, ExpansionStrategy, RemoveFrontOfPrefix, Word

logzero.loglevel(logging.ERROR)


class Relabel(DisjointUnionStrategy[AvoidingWithPrefix, Word]):
    """letter i of the alphabet becomes letter perm[i]: a bijection offered as a ONE-WAY unary rule"""

    def __init__(self, perm):
        super().__init__(ignore_parent=False, inferrable=False, possibly_empty=False, workable=True)
        self.perm = tuple(perm)

    def _map(self, w, alphabet):
        table = {alphabet[i]: alphabet[j] for i, j in enumerate(self.perm)}
        return "".join(table[x] for x in w)

    def decomposition_function(self, c):
        if len(c.alphabet) != len(self.perm):
            return None
        return (AvoidingWithPrefix(self._map(c.prefix, c.alphabet), [self._map(p, c.alphabet) for p in c.patterns],
                                   c.alphabet, c.just_prefix),)

    def is_two_way(self, comb_class):
        return False

    def is_reversible(self, comb_class):
        return False

    def formal_step(self):
        return "relabel the letters by %s (one way)" % (self.perm,)

    def forward_map(self, comb_class, obj, children=None):
        return (Word(self._map(obj, comb_class.alphabet)),)

    def backward_map(self, comb_class, objs, children=None):
        raise NotImplementedError

    def to_jsonable(self):
        d = super().to_jsonable()
        d["perm"] = list(self.perm)
        return d

    @classmethod
    def from_dict(cls, d):
        return cls(d["perm"])

    def __repr__(self):
        return "Relabel(%r)" % (self.perm,)

    def __str__(self):
        return self.formal_step()


def make(db):
    start = AvoidingWithPrefix("", ["aa"], ["a", "b", "c"])
    pack = StrategyPack([RemoveFrontOfPrefix()], [], [[ExpansionStrategy()], [Relabel((1, 0, 2)), Relabel((2, 0, 1))]],
                        [AtomStrategy()], name="example + one-way relabellings")
    return CombinatorialSpecificationSearcher(start, pack, ruledb=db())


def packets(css, n):
    """process n work packets; returns the (label, strategies) handed out"""
    out = []
    queue = css.classqueue
    orig_next = type(queue).__next__

    class Spy(type(queue)):
        def __next__(self):
            p = orig_next(self)
            out.append((p.label, tuple(str(s) for s in p.strategies)))
            return p

    queue.__class__ = Spy
    try:
        for _ in range(n):
            if not css._expand_classes_for(0, None, 0, 0)[0]:  # one packet per call
                break
    finally:
        queue.__class__ = Spy.__mro__[1]
    return out


def expanded(css, n):
    """labels actually expanded (not skipped as verified) during the next n packets"""
    seen = []
    orig = css._expand

    def spy(comb_class, label, strategies, inferral):
        seen.append(label)
        return orig(comb_class, label, strategies, inferral)

    css._expand = spy
    try:
        packets(css, n)
    finally:
        del css._expand
    return seen


bad = 0
for db in (RuleDB, RuleDBForgetStrategy):
    for k in range(1, 40):
        a = make(db)
        packets(a, k)
        blob = pickle.dumps(a)
        # (1) the same searcher, asked has_specification()
        c = pickle.loads(blob)
        c.ruledb.has_specification()
        va = sorted(l for l in range(len(a.classdb.comb_class_list)) if pickle.loads(blob).ruledb.is_verified(l))
        vc = sorted(l for l in range(len(c.classdb.comb_class_list)) if pickle.loads(pickle.dumps(c)).ruledb.is_verified(l))
        if c == a and va != vc:
            wa, wc = expanded(pickle.loads(blob), 12), expanded(c, 12)
            if wa != wc:
                bad += 1
                print("[%s, k=%d] the library says copy == original, verified labels %s vs %s; the next 12 packets "
                      "expand labels %s vs %s" % (db.__name__, k, va, vc, wa, wc))
                break
    for k in range(1, 40):
        a = make(db)
        packets(a, k)
        a.ruledb.has_specification()
        # (2) a faulty restore: the verified set is lost
        b = pickle.loads(pickle.dumps(a))
        lost = set(b.ruledb.equivdb.verified_roots)
        b.ruledb.equivdb.verified_roots = set()
        if lost and b == a:
            wa, wb = expanded(pickle.loads(pickle.dumps(a)), 12), expanded(b, 12)
            if wa != wb:
                bad += 1
                print("[%s, k=%d] a restored searcher that lost its verified roots %s is == the original; the next 12 "
                      "packets expand labels %s vs %s" % (db.__name__, k, sorted(lost), wa, wb))
                break
if bad:
    print("RuleDBBase.__eq__ ignores the equivalence database: %d demonstrations" % bad)
    sys.exit(1)
print("OK: searchers that differ in their equivalence database are not ==")
