import sys, random, json, itertools, collections
import proposed_c09_changes as proposed
from proposed_c09_changes import c09
corpus = {"note": "KNOWN FINDING (path call site): EquivalencePathRule([reverse of the equivalence form of  B = A + E  w.r.t. A]) where A carries a statistic s (one object of size 1, s = 2) that B does not track: get_terms(1) = {(0,): 1}, truth {(2,): 1}; no exception",
 "case": {"form": 6, "idx": 0, "N": 2, "edge": 1, "tags": ["path:down0-up1"],
  "steps": [{"node": ["sum", [], [[["leaf", ["s"], [[1, [2], 1]]], []], [["leaf", [], []], []]]], "rev": 1, "idx": 0}]}}
json.dump(corpus, open("/root/work/R5/findings/triage2/C09/corpus_path_untracked_statistic.json", "w"), indent=1)
case = corpus["case"]
assert c09._valid(case)
res = c09.impl(case)
print("old oracle:", c09.oracle(case, res), "| old finding_match:", c09.finding_match(case, c09.oracle(case, res)))
why = proposed.oracle(case, res)
print("new oracle:", why, "\nnew finding_match:", proposed.finding_match(case, why))
# agreement with the current oracle/finding_match on everything that is not a form-3/6 edge case; what changes
rng = random.Random(int(sys.argv[1])); st = collections.Counter(); n = 0
for c in itertools.islice(c09.gen(rng, "quick"), int(sys.argv[2])):
    r = c09.impl(c)
    o0 = c09.oracle(c, r); f0 = c09.finding_match(c, o0) if o0 else None
    o1 = proposed.oracle(c, r); f1 = proposed.finding_match(c, o1) if o1 else None
    if not (c.get("edge") and c["form"] in (3, 6)):
        assert (o0, f0) == (o1, f1), (c, o0, o1)
    else:
        st[(c["form"], "FAIL" if o1 else "pass", f1)] += 1
        if c["form"] == 6:
            assert (o1 is None) == (r["out"][0] == r["truth"] and r["out"][1] == [])
for k, v in sorted(st.items(), key=str): print(v, k)
# a mutated result on the corpus case (another wrong count) is NOT masked
r2 = json.loads(json.dumps(res)); r2["out"][0][1] = [[[1], 1]]
w2 = proposed.oracle(case, r2); print("mutated [[1],1]:", w2, "->", proposed.finding_match(case, w2))
r3 = json.loads(json.dumps(res)); r3["out"][0][1] = [[[0], 2]]
w3 = proposed.oracle(case, r3); print("mutated [[0],2]:", w3, "->", proposed.finding_match(case, w3))
