"""proposed additions/replacements for harness/props/c09.py (tested by monkeypatching, see test_proposed_c09_changes.py)"""
import sys
sys.path.insert(0, "/root/work/R5")
from harness.props import c09
from harness.props.c09 import ERR, TAG_UNTRACKED, TAG_MERGED, _zeroed, _flipped_shape

# ---------------------------------------------------------------- BEGIN PROPOSED CODE
TAG_PATH_UNTRACKED = ("[path: statistic(s) of the parent of a reverse step that the step's child does not track "
                      "are reported as 0]")
TAG_QUOT_UNTRACKED = ("[quotient: AssertionError in CartesianProduct.param_map, the flipped child has statistic(s) "
                      "that no parent statistic maps to]")


def _path_lost(case):
    """
    Form 6 only.  Positions (in the PATH PARENT's extra_parameters) of the statistics whose value a reverse
    step cannot know: walking down the chain, a statistic of the path parent is 'live' while every step so far
    maps it onto a statistic of the step's child; a FORWARD step that does not map it drops it legitimately
    (the union rule says it is 0 on that child); a REVERSE step (rev = 1: step parent = the flipped child
    kids[idx] of the union node, step child = the union node) loses it when the flipped child's dictionary
    has no entry whose VALUE is that statistic, i.e. the flipped child carries a statistic that is not in
    the image of the union parent's parameter map.  Read off the case alone (not off the implementation).
    -> (sorted positions, a reverse step has a non-injective dictionary?)
    """
    steps = case["steps"]
    first = steps[0]
    names = list(first["node"][2][first["idx"]][0][1]) if first["rev"] else list(first["node"][1])
    live = {v: v for v in names}  # path-parent statistic -> statistic of the current class
    lost = []
    for st in steps:
        _, pairs = st["node"][2][st["idx"]]  # [[union-parent statistic, child statistic], ...]
        if st["rev"]:
            vals = [b for _, b in pairs]
            if len(set(vals)) < len(vals):
                return sorted(names.index(p) for p in lost), True
            inv = {b: a for a, b in pairs}
            lost += [p for p, c in live.items() if c not in inv]
            live = {p: inv[c] for p, c in live.items() if c in inv}
        else:
            d = {a: b for a, b in pairs}
            live = {p: d[c] for p, c in live.items() if c in d}
    return sorted(names.index(p) for p in lost), False


def _flipped_shape_any(case):
    """_flipped_shape without its restriction to union nodes / the expansion strategy (needed for form 3)"""
    spec, idx = case["spec"], case["idx"]
    if spec["u"] == "syn":
        kid, d = spec["node"][2][idx]
        return list(kid[1]), [list(e) for e in d]
    pl = spec["plans"][idx]
    return [st[0] for st in pl["stats"]], [list(e) for e in pl["dict"]]


def oracle(case, res):
    if "exception" in res:
        return "implementation crashed: " + res["exception"]
    levels, err = res["out"]
    truth = res["truth"]
    form = case["form"]
    fl = res.get("flipped") or {"untracked": [], "merged": False}
    if form == 6:
        untracked, tag = _path_lost(case)[0], TAG_PATH_UNTRACKED
    else:
        untracked, tag = fl["untracked"], TAG_UNTRACKED
    zeroed = [_zeroed(t, untracked) for t in truth]
    bad = next((n for n, lv in enumerate(levels) if lv != truth[n]), None)
    as_zeroed = bool(untracked) and all(lv == zeroed[n] for n, lv in enumerate(levels))
    if err != []:
        why = "get_terms raised " + res.get("raised", str(err))
        conflicts = fl.get("conflict_levels", [])
        if (form in (2, 5) and err == ERR["AssertionError"] and fl["merged"] and (bad is None or as_zeroed)
                and res.get("raised_in") == ["disjoint.py:get_terms", "disjoint.py:param_map"]
                and conflicts and conflicts[0] == len(levels)):
            why += " " + TAG_MERGED
        if (form == 3 and err == ERR["AssertionError"] and bad is None
                and res.get("raised_in") == ["cartesian.py:get_terms", "cartesian.py:param_map"]):
            names, d = _flipped_shape_any(case)
            if [x for x in names if x not in [b for _, b in d]]:
                why += " " + TAG_QUOT_UNTRACKED
        return why
    if bad is not None:
        why = "size %d: rule.get_terms gives %r but the class has %r" % (bad, levels[bad][:6], truth[bad][:6])
        if as_zeroed and form in (2, 5, 6):
            why += " " + tag
        return why
    return None


def finding_match(case, why):
    if not isinstance(why, str):
        return None
    form = case.get("form")
    if form == 6:
        # exactly: a path with a reverse step that loses a live statistic, nothing raised, every level is the
        # truth with exactly those statistics set to 0 (the oracle only appends the tag in that situation)
        if why.endswith(TAG_PATH_UNTRACKED) and _path_lost(case)[0] and "raised" not in why:
            return "path-reverse-step-untracked-child-statistic"
        return None
    if form not in (2, 3, 5):
        return None
    if form == 3:
        names, d = _flipped_shape_any(case)
        if (why.endswith(TAG_QUOT_UNTRACKED) and [x for x in names if x not in [b for _, b in d]]
                and "raised AssertionError" in why):
            return "complement-untracked-child-statistic"
        return None
    shape = _flipped_shape(case)
    if shape is None:
        return None
    names, d = shape
    vals = [b for _, b in d]
    untracked = [x for x in names if x not in vals]
    merged = len(set(vals)) < len(vals)
    if why.endswith(TAG_UNTRACKED) and untracked and "raised" not in why:
        return "complement-untracked-child-statistic"
    if why.endswith(TAG_MERGED) and merged and form == 2 and "raised AssertionError" in why:
        return "reverse-wrt-child-with-merged-statistics-asserts"
    return None
# ---------------------------------------------------------------- END PROPOSED CODE
