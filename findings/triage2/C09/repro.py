"""
C09 triage 2: an EquivalencePathRule containing a REVERSE step over a child that carries a
statistic no parent statistic maps to ("untracked child statistic") silently counts that
statistic as 0.

    B (no statistic) = A (one object of size 1, statistic s = 2) + E (empty)       genuine union rule
    step  = B_rule.to_reverse_rule(0).to_equivalence_rule()      parent A, child B  (form 5)
    path  = EquivalencePathRule([step])                          parent A, child B  (form 6)

    path.get_terms(1) = {(0,): 1}      truth (brute force on A) = {(2,): 1}        no exception

Also shown: the same step as a plain form-5 rule and the plain reverse (form 2) give the same wrong
table (the OPEN finding "complement-untracked-child-statistic"), a longer chain
T -(forward)-> A -(reverse)-> B, the path the library builds BY ITSELF inside
CombinatorialSpecification.__init__ (_group_equiv_in_path), two controls (the statistic is tracked;
the statistic is dropped earlier in the chain, so nothing is lost), and which code writes the 0.

Run:  PYTHONPATH=/repo /venv/bin/python repro.py        exit 0 = behaviour present
"""
import logging
import sys
from collections import Counter

logging.disable(logging.CRITICAL)

from comb_spec_searcher import (  # noqa: E402
    AtomStrategy,
    CombinatorialClass,
    CombinatorialSpecification,
    DisjointUnionStrategy,
)
from comb_spec_searcher.strategies.constructor import Complement, DisjointUnion  # noqa: E402
from comb_spec_searcher.strategies.rule import EquivalencePathRule  # noqa: E402


class Bag(CombinatorialClass):
    """A finite class given by its objects: objs = ((label, size, statistics tuple), ...)."""

    def __init__(self, name, stats, objs):
        self.name, self.stats, self.objs = name, tuple(stats), tuple(objs)

    @property
    def extra_parameters(self):
        return self.stats

    def objects_of_size(self, n, **parameters):
        for o in self.objs:
            if o[1] == n:
                yield o

    def get_parameters(self, obj):
        return tuple(obj[2])

    def is_empty(self):
        return not self.objs

    def is_atom(self):
        return len(self.objs) == 1

    def minimum_size_of_object(self):
        return min(o[1] for o in self.objs)

    def to_jsonable(self):
        return {"name": self.name, "stats": self.stats, "objs": self.objs}

    @classmethod
    def from_dict(cls, d):
        return cls(d["name"], d["stats"], d["objs"])

    def __eq__(self, other):
        return isinstance(other, Bag) and (self.name, self.stats, self.objs) == (
            other.name,
            other.stats,
            other.objs,
        )

    def __hash__(self):
        return hash((self.name, self.stats, self.objs))

    def __repr__(self):
        return "Bag(%s)" % self.name

    def __str__(self):
        return self.name


class Union(DisjointUnionStrategy):
    """parent = disjoint union of the given children, with the given parameter dictionaries"""

    def __init__(self, table):
        super().__init__()
        self.table = table  # parent -> ((child, dict), ...)

    def decomposition_function(self, comb_class):
        if comb_class in self.table:
            return tuple(c for c, _ in self.table[comb_class])
        return None

    def extra_parameters(self, comb_class, children=None):
        return tuple(dict(d) for _, d in self.table[comb_class])

    def formal_step(self):
        return "union"

    def forward_map(self, comb_class, obj, children=None):
        raise NotImplementedError

    def backward_map(self, comb_class, objs, children=None):
        raise NotImplementedError

    @classmethod
    def from_dict(cls, d):
        raise NotImplementedError

    def __repr__(self):
        return "Union()"

    def __str__(self):
        return "union"


class Provider:
    """what a specification hands to set_subrecs for a child: here the child's TRUE terms"""

    def __init__(self, comb_class):
        self.comb_class = comb_class

    def get_terms(self, n):
        return self.comb_class.get_terms(n)  # brute force over objects_of_size

    count_objects_of_size = get_objects = random_sample_object_of_size = None


def show(terms):
    return sorted([list(p), v] for p, v in terms.items() if v)


X = ("x", 1)
A = Bag("A", ("s",), [X + ((2,),)])  # one object of size 1 with s = 2
E = Bag("E", (), [])  # empty
Y = Bag("Y", (), [("y", 1, ())])  # one other object of size 1
B = Bag("B", (), [X + ((),)])  # B = A + E, B tracks nothing
B2 = Bag("B2", (), [X + ((),), ("y", 1, ())])  # B2 = A + Y (the known finding's example)
Bp = Bag("Bp", ("p",), [X + ((2,),)])  # control: Bp = A + E with p -> s
T = Bag("T", ("t",), [X + ((2,),)])  # T = A + E with t -> s      (t is s under another name)
T0 = Bag("T0", (), [X + ((),)])  # T0 = A + E, T0 tracks nothing (s dropped before the reverse step)

strat = Union(
    {
        B: ((A, {}), (E, {})),
        B2: ((A, {}), (Y, {})),
        Bp: ((A, {"p": "s"}), (E, {})),
        T: ((A, {"t": "s"}), (E, {})),
        T0: ((A, {}), (E, {})),
    }
)

N = 2
present = {}


def check(label, rule, expect_wrong):
    rule.set_subrecs(Provider)
    truth = [show(rule.comb_class.get_terms(n)) for n in range(N + 1)]
    try:
        got = [show(rule.get_terms(n)) for n in range(N + 1)]
    except NotImplementedError as exc:  # a patched library refuses instead of answering 0
        print("%-58s REFUSES: NotImplementedError(%s)" % (label, str(exc)[:60] + "..."))
        present[label] = not expect_wrong
        return None
    wrong = got != truth
    print("%-58s get_terms(1) = %-12r truth = %-12r %s" % (label, got[1], truth[1], "WRONG" if wrong else "ok"))
    present[label] = wrong == expect_wrong
    return got


# the original rules are genuine: fed with the true terms of the children they give the true parent
for parent in (B, B2, Bp, T, T0):
    check("form 0  %s = %s" % (parent, " + ".join(map(str, strat(parent).children))), strat(parent), False)
print()

# ---- the known finding's forms ------------------------------------------------------------
check("form 2  B2.to_reverse_rule(0)               A = B2 - Y", strat(B2).to_reverse_rule(0), True)
step = strat(B).to_reverse_rule(0).to_equivalence_rule()
assert step.comb_class == A and step.children == (B,) and isinstance(step.constructor, Complement)
check("form 5  B.to_reverse_rule(0).to_equivalence_rule()   A ~ B", step, True)

# ---- the behaviour under triage: the same step inside a path --------------------------------
step = strat(B).to_reverse_rule(0).to_equivalence_rule()
path = EquivalencePathRule([step])
assert path.comb_class == A and path.children == (B,)

calls = Counter()
_orig = Complement.get_terms


def _spy(self, *a, **k):
    calls["Complement.get_terms"] += 1
    return _orig(self, *a, **k)


Complement.get_terms = _spy
check("form 6  EquivalencePathRule([that step])             A ~ B", path, True)
Complement.get_terms = _orig

try:
    cons = path.constructor
except NotImplementedError:
    cons = None
    print("   (patched library: the path constructor refuses, no DisjointUnion is built)")
if cons is not None:
    print()
    print("   path.constructor: %s, extra_parameters=%r, fixed_values=%r, zeroes=%r"
          % (type(cons).__name__, cons.extra_parameters, cons.fixed_values, cons.zeroes))
    print("   Complement.get_terms calls while the path counted: %d" % calls["Complement.get_terms"])
    print("   -> the path never runs the Complement: EquivalencePathRule.constructor (rule.py:881-895) inverts the")
    print("      step's dictionary ({} inverted is {}), drops 's' from the composed dictionary")
    print("      (`if child_var in rules_parameters`) and builds DisjointUnion(A, (B,), ({},), ({},));")
    print("      DisjointUnion.param_map (disjoint.py:78) then fills the unmapped parent position with 0")
    print("      (`0 if p is None else p`), the convention for a parent statistic that a child DROPS.")
    assert isinstance(cons, DisjointUnion) and cons.extra_parameters == ({},) and calls["Complement.get_terms"] == 0
print()

# ---- a chain of two: forward step T ~ A (t -> s), then the reverse step A ~ B ---------------
fwd = strat(T).to_equivalence_rule()
step = strat(B).to_reverse_rule(0).to_equivalence_rule()
check("form 6  [T ~ A forward (t->s), A ~ B reverse]         T ~ B", EquivalencePathRule([fwd, step]), True)

# ---- the path built by the library itself ---------------------------------------------------
step = strat(B).to_reverse_rule(0).to_equivalence_rule()
spec = CombinatorialSpecification(A, [step, AtomStrategy()(B)])
root_rule = spec.root_rule
assert isinstance(root_rule, EquivalencePathRule), type(root_rule)
truth = show(A.get_terms(1))
try:
    got = show(spec.get_terms(1))
    print("%-58s get_terms(1) = %-12r truth = %-12r %s"
          % ("spec    CombinatorialSpecification(A, [step, atom B])", got, truth, "WRONG" if got != truth else "ok"))
    print("%-58s s=2: %d (truth 1)   s=0: %d (truth 0)"
          % ("        spec.count_objects_of_size(1, s=..)", spec.count_objects_of_size(1, s=2),
             spec.count_objects_of_size(1, s=0)))
    present["spec"] = got != truth
except NotImplementedError as exc:
    print("%-58s REFUSES: NotImplementedError(%s)"
          % ("spec    CombinatorialSpecification(A, [step, atom B])", str(exc)[:60] + "..."))
    present["spec"] = False
print()

# ---- controls -------------------------------------------------------------------------------
step = strat(Bp).to_reverse_rule(0).to_equivalence_rule()
check("ctrl    path, statistic tracked (p -> s)               A ~ Bp", EquivalencePathRule([step]), False)
fwd0 = strat(T0).to_equivalence_rule()
step = strat(B).to_reverse_rule(0).to_equivalence_rule()
check("ctrl    path [T0 ~ A forward ({}), A ~ B reverse]      T0 ~ B", EquivalencePathRule([fwd0, step]), False)

print()
ok = all(present.values())
print("behaviour present (every line as described above):", ok)
sys.exit(0 if ok else 1)
