"""
C13 / triage2 (3)  --  ParallelSpecFinder (variant 0, the BASE finder) returns two specifications that are NOT
isomorphic when a universe contains a unary NON-equivalence rule inside an equivalence class.

Run:  PYTHONPATH=/repo /venv/bin/python repro.py        (exit code 0 = behaviour present)

Universe (all words over {a,b}; "p:0/t" = the words with prefix p, copy t; "=w/0" = the single word w):
  side 1:  :0/0 --N--> :0/1,   :0/1 = {eps} + a:0/1 + b:0/1,   x:0/1 = x . :0/1
  side 2:                      :0/0 = {eps} + a:0/0 + b:0/0,   x:0/0 = x . :0/0
N is a two-way unary rule whose strategy says can_be_equivalent() False (like tilings' fusion): RuleDB.add
joins :0/0 and :0/1 of side 1 into ONE equivalence class (rule.is_two_way()), but the rule is not an
equivalence rule (rule.is_equivalence() False), so SpecificationRuleExtractor hands it out as an ordinary
one-child rule.  The base finder works on equivalence labels only: it matches the label {:0/0,:0/1} of side 1
with :0/0 of side 2 (both "a 3-child disjoint union") and never looks inside the label.  Returned: spec 1
whose root rule is the unary N, spec 2 whose root rule is the 3-child union.  Both are valid and count 2^n.

ParallelSpecFinder's class docstring: "This version assumes that any classes that share equivalence labels
are in fact equivalent."  EqPathParallelSpecFinder: "A version of ParallelSpecFinder that supports
nonequivalent classes sharing equivalence labels."  The script also runs the EqPath variant on the same
input (it answers None: the paths differ) and on the pair (side 1, side 1) (it answers a pair).
"""
import logging
import sys

import logzero

logzero.loglevel(logging.ERROR)

import itertools  # noqa: E402

from comb_spec_searcher import (AtomStrategy, CartesianProductStrategy, CombinatorialClass, CombinatorialObject,
    CombinatorialSpecificationSearcher, DisjointUnionStrategy, StrategyPack)
class Wd(str, CombinatorialObject):
    def size(self): return str.__len__(self)
def accepts(q, w):
    for x in w:
        if q is None: return False
        q = DFA["delta"][q]["ab".index(x)]
    return q is not None and bool(DFA["final"][q])
class C(CombinatorialClass):
    def __init__(self, side, key):
        self.side, self.key = side, key
        body, t = key.rsplit("/", 1)
        self.tag = int(t); self.atom = body.startswith("=")
        if self.atom: self.pre, self.q = body[1:], None
        else:
            p, q = body.split(":"); self.pre, self.q = p, int(q)
    def is_empty(self): return False
    def is_atom(self): return self.atom
    def minimum_size_of_object(self):
        n = len(self.pre)
        while not list(self.objects_of_size(n)): n += 1
        return n
    def objects_of_size(self, n):
        if self.atom:
            if n == len(self.pre): yield Wd(self.pre)
        elif n >= len(self.pre):
            for w in itertools.product("ab", repeat=n - len(self.pre)):
                w = "".join(w)
                if accepts(self.q, w): yield Wd(self.pre + w)
    def to_jsonable(self): return {"side": self.side, "key": self.key}
    @classmethod
    def from_dict(cls, d): return cls(d["side"], d["key"])
    def __eq__(self, o): return isinstance(o, C) and (self.side, self.key) == (o.side, o.key)
    def __hash__(self): return hash((self.side, self.key))
    def __repr__(self): return "C(%r,%r)" % (self.side, self.key)
    def __str__(self): return self.key
class _T:
    def __init__(self, i):
        super().__init__(); self.i = i
    def decomposition_function(self, c):
        rs = [r for r in TABLE[c.side].get(c.key, []) if r[0] == self.KIND]
        return tuple(C(c.side, k) for k in rs[self.i][1]) if self.i < len(rs) else None
    def formal_step(self): return "%s rule %d" % (self.KIND, self.i)
    @classmethod
    def from_dict(cls, d): return cls(d["i"])
    def __repr__(self): return "%s(%d)" % (type(self).__name__, self.i)
    def __str__(self): return self.formal_step()
class U(_T, DisjointUnionStrategy):
    KIND = "U"
    def forward_map(self, c, obj, children=None):
        children = children or self.decomposition_function(c)
        return tuple(obj if obj in set(ch.objects_of_size(len(obj))) else None for ch in children)
class E(_T, DisjointUnionStrategy):
    KIND = "E"
    def forward_map(self, c, obj, children=None): return (obj,)
class N(_T, DisjointUnionStrategy):
    KIND = "N"
    def can_be_equivalent(self): return False
    def forward_map(self, c, obj, children=None): return (obj,)
class P(_T, CartesianProductStrategy):
    KIND = "P"
    def forward_map(self, c, obj, children=None):
        children = children or self.decomposition_function(c)
        out, pos = [], 0
        for ch in children:
            if ch.atom: out.append(Wd(obj[pos:pos+len(ch.pre)])); pos += len(ch.pre)
            else: out.append(None)
        rest = obj[pos:]
        return tuple(Wd(rest) if o is None else o for o in out)
    def backward_map(self, c, objs, children=None):
        children = children or self.decomposition_function(c)
        atoms = "".join(o for o, ch in zip(objs, children) if ch.atom)
        rest = "".join(o for o, ch in zip(objs, children) if not ch.atom)
        yield Wd(atoms + rest)
def searcher(side, start):
    pack = StrategyPack([P(0), P(1), E(0), E(1), N(0), N(1)], [], [[U(0), U(1), U(2)]], [AtomStrategy()], name="table")
    return CombinatorialSpecificationSearcher(C(side, start), pack)


DFA = {"delta": [[0, 0]], "final": [1]}
TABLE = {
    "1": {
        ":0/0": [["N", [":0/1"]]],
        ":0/1": [["U", ["=/0", "a:0/1", "b:0/1"]]],
        "a:0/1": [["P", ["=a/0", ":0/1"]]], "b:0/1": [["P", ["=b/0", ":0/1"]]],
    },
    "2": {
        ":0/0": [["U", ["=/0", "a:0/0", "b:0/0"]]],
        "a:0/0": [["P", ["=a/0", ":0/0"]]], "b:0/0": [["P", ["=b/0", ":0/0"]]],
    },
}


def check_table():
    """every rule of the table is a true decomposition of its class (sizes 0..5)"""
    for side, t in TABLE.items():
        for key, rs in t.items():
            c = C(side, key)
            for kind, kids in rs:
                ks = [C(side, k) for k in kids]
                for n in range(6):
                    truth = sorted(c.objects_of_size(n))
                    if kind != "P":
                        got = sorted(w for k in ks for w in k.objects_of_size(n))
                    else:
                        atoms = "".join(k.pre for k in ks if k.atom)
                        rest = [k for k in ks if not k.atom][0]
                        got = sorted(atoms + w for w in rest.objects_of_size(n - len(atoms))) if n >= len(atoms) else []
                    assert got == truth, (side, key, kind, kids, n)


def noneq_inside(css):
    """unary rules joining two classes of one equivalence class that are not equivalence rules"""
    db = css.ruledb
    out = []
    for (s, ends), strat in db.eqv_rule_to_strategy.items():
        rule = strat(css.classdb.get_class(s))
        if not rule.is_equivalence():
            out.append((str(css.classdb.get_class(s)), [str(css.classdb.get_class(e)) for e in ends], str(strat)))
    return out


def main():
    from comb_spec_searcher.bijection import EqPathParallelSpecFinder, ParallelSpecFinder
    from comb_spec_searcher.isomorphism import Bijection, Isomorphism

    check_table()
    print("ParallelSpecFinder.__doc__:", " ".join(ParallelSpecFinder.__doc__.split()))
    print("EqPathParallelSpecFinder.__doc__:", " ".join(EqPathParallelSpecFinder.__doc__.split()))
    c1, c2 = searcher("1", ":0/0"), searcher("2", ":0/0")
    specs = ParallelSpecFinder(c1, c2).find()
    print("precondition of the base variant violated by:", noneq_inside(c1), noneq_inside(c2))
    if specs is None:
        print("ParallelSpecFinder.find() returned None")
        print("behaviour not observed")
        return 1
    s1, s2 = specs
    for s in specs:
        counts = [s.count_objects_of_size(n) for n in range(8)]
        assert counts == [2 ** n for n in range(8)], counts
    print(s1)
    print(s2)
    r1, r2 = s1.get_rule(s1.root), s2.get_rule(s2.root)
    print("root rule of spec 1: %d child(ren), is_equivalence() = %s   root rule of spec 2: %d children" % (
        len(r1.children), r1.is_equivalence(), len(r2.children)))
    i12, i21 = Isomorphism.check(s1, s2), Isomorphism.check(s2, s1)
    bij = Bijection.construct(s1, s2)
    print("both specifications count 1, 2, 4, 8, ... correctly")
    print("Isomorphism.check(spec1, spec2) =", i12, "  Isomorphism.check(spec2, spec1) =", i21)
    print("Bijection.construct(spec1, spec2) =", bij)
    eq = EqPathParallelSpecFinder(searcher("1", ":0/0"), searcher("2", ":0/0")).find()
    print("EqPathParallelSpecFinder on the same input:", "None" if eq is None else "a pair, Isomorphism.check = %s" % Isomorphism.check(*eq))
    eq11 = EqPathParallelSpecFinder(searcher("1", ":0/0"), searcher("1", ":0/0")).find()
    print("EqPathParallelSpecFinder on (side 1, side 1):", "None" if eq11 is None else "a pair, Isomorphism.check = %s" % Isomorphism.check(*eq11))
    if (not i12 or not i21 or bij is None) and len(r1.children) != len(r2.children):
        print("BEHAVIOUR PRESENT: the base variant returned two valid specifications that are not isomorphic")
        return 0
    print("behaviour not observed")
    return 1


if __name__ == "__main__":
    sys.exit(main())
