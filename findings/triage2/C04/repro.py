"""
C04 triage: a strategy in `pack.symmetries` that yields a rule with >= 2 children.

CombinatorialSpecificationSearcher._symmetry_expand (comb_spec_searcher/comb_spec_searcher.py)
does

    sym_label = end_labels[0]
    self.classdb.set_empty(sym_label, empty)
    self.ruledb.add(start_label, (sym_label,), rule)
    self.classqueue.set_stop_yielding(sym_label)

so for a rule object with several children only the label of the FIRST child is recorded
(silently; nothing validates that a symmetry rule is unary).

Run:  PYTHONPATH=/repo /venv/bin/python repro.py
exit 0 = behaviour present (a rule was recorded with fewer labels than it has children,
         none of the omitted children being empty)
exit 1 = behaviour absent (all recorded rules carry the labels of all their children, or the
         malformed pack is rejected with a clear error)

Standalone: the word class and the two strategies are a trimmed copy of /repo/example.py.
"""
import logging
import sys
import traceback
from itertools import product

from comb_spec_searcher import (
    AtomStrategy,
    CartesianProductStrategy,
    CombinatorialClass,
    CombinatorialObject,
    CombinatorialSpecificationSearcher,
    DisjointUnionStrategy,
    StrategyPack,
)
from comb_spec_searcher.exception import (
    InvalidOperationError,
    SpecificationNotFound,
)
from comb_spec_searcher.rule_db import RuleDB, RuleDBForest

logging.disable(logging.CRITICAL)


# ----------------------------------------------------------------------------------------
# the universe: words over {a,b} avoiding consecutive patterns, with a prefix (example.py)
# ----------------------------------------------------------------------------------------
class Word(str, CombinatorialObject):
    def size(self):
        return str.__len__(self)


class AvoidingWithPrefix(CombinatorialClass[Word]):
    def __init__(self, prefix, patterns, alphabet, just_prefix=False):
        self.alphabet = tuple(sorted(alphabet))
        self.prefix = Word(prefix)
        self.patterns = tuple(sorted(map(Word, patterns)))
        self.just_prefix = just_prefix
        super().__init__()

    def is_empty(self):
        return bool(any(p in self.prefix for p in self.patterns))

    def to_jsonable(self):
        d = super().to_jsonable()
        d["prefix"] = self.prefix
        d["patterns"] = tuple(sorted(self.patterns))
        d["alphabet"] = tuple(sorted(self.alphabet))
        d["just_prefix"] = int(self.just_prefix)
        return d

    @classmethod
    def from_dict(cls, d):
        return cls(
            d["prefix"], d["patterns"], d["alphabet"], bool(int(d["just_prefix"]))
        )

    def __eq__(self, other):
        if not isinstance(other, AvoidingWithPrefix):
            return NotImplemented
        return (self.alphabet, self.prefix, self.patterns, self.just_prefix) == (
            other.alphabet,
            other.prefix,
            other.patterns,
            other.just_prefix,
        )

    def __hash__(self):
        return hash((self.prefix, self.patterns, self.alphabet, self.just_prefix))

    def __str__(self):
        prefix = self.prefix if self.prefix else '""'
        if self.just_prefix:
            return "The word {}".format(prefix)
        return "Av({}) with prefix {}".format(", ".join(self.patterns), prefix)

    def __repr__(self):
        return "AvoidingWithPrefix({!r}, {!r}, {!r}, {!r})".format(
            self.prefix, self.patterns, self.alphabet, self.just_prefix
        )

    def is_atom(self):
        return self.just_prefix

    def minimum_size_of_object(self):
        return len(self.prefix)

    def objects_of_size(self, size):
        if self.just_prefix:
            if size == len(self.prefix) and not self.is_empty():
                yield Word(self.prefix)
            return
        if len(self.prefix) > size:
            return
        for letters in product(self.alphabet, repeat=size - len(self.prefix)):
            word = Word(self.prefix + "".join(letters))
            if all(patt not in word for patt in self.patterns):
                yield word


class ExpansionStrategy(DisjointUnionStrategy[AvoidingWithPrefix, Word]):
    """C(prefix) = {prefix} + C(prefix a) + C(prefix b): a disjoint union with 3 children."""

    def decomposition_function(self, comb_class):
        if not comb_class.just_prefix:
            alphabet, prefix, patterns = (
                comb_class.alphabet,
                comb_class.prefix,
                comb_class.patterns,
            )
            children = [AvoidingWithPrefix(prefix, patterns, alphabet, True)]
            for a in alphabet:
                children.append(AvoidingWithPrefix(prefix + a, patterns, alphabet))
            return tuple(children)
        return None

    def formal_step(self):
        return "Either just the prefix, or append a letter from the alphabet"

    def forward_map(self, comb_class, word, children=None):
        if children is None:
            children = self.decomposition_function(comb_class)
        if len(word) == len(comb_class.prefix):
            return (word,) + tuple(None for i in range(len(children) - 1))
        for idx, child in enumerate(children[1:]):
            if word[: len(child.prefix)] == child.prefix:
                break
        return (
            tuple(None for _ in range(idx + 1))
            + (word,)
            + tuple(None for _ in range(len(children) - idx - 2))
        )

    def __str__(self):
        return self.formal_step()

    def __repr__(self):
        return self.__class__.__name__ + "()"

    @classmethod
    def from_dict(cls, d):
        return cls()


class LettersFirst(ExpansionStrategy):
    """The same union with the children listed as (C(prefix a), C(prefix b), {prefix})."""

    def decomposition_function(self, comb_class):
        kids = super().decomposition_function(comb_class)
        return None if kids is None else kids[1:] + kids[:1]

    def forward_map(self, comb_class, word, children=None):
        res = super().forward_map(comb_class, word, None)
        return res[1:] + res[:1]


class OneWayExpansion(ExpansionStrategy):
    """The same union, declared one-way (not usable backwards)."""

    def is_two_way(self, comb_class):
        return False

    def is_reversible(self, comb_class):
        return False


class RemoveFrontOfPrefix(CartesianProductStrategy[AvoidingWithPrefix, Word]):
    def decomposition_function(self, comb_class):
        if not comb_class.just_prefix:
            safe = self.index_safe_to_remove_up_to(comb_class)
            if safe > 0:
                prefix, patterns, alphabet = (
                    comb_class.prefix,
                    comb_class.patterns,
                    comb_class.alphabet,
                )
                start = AvoidingWithPrefix(prefix[:safe], patterns, alphabet, True)
                end = AvoidingWithPrefix(prefix[safe:], patterns, alphabet)
                return (start, end)
        return None

    @staticmethod
    def index_safe_to_remove_up_to(comb_class):
        prefix, patterns = comb_class.prefix, comb_class.patterns
        m = max(len(p) for p in patterns) if patterns else 1
        safe = max(0, len(prefix) - m + 1)
        for i in range(safe, len(prefix)):
            end = prefix[i:]
            if any(end == patt[: len(end)] for patt in patterns):
                break
            safe = i + 1
        return safe

    def formal_step(self):
        return "removing redundant prefix"

    def backward_map(self, comb_class, words, children=None):
        yield Word(words[0] + words[1])

    def forward_map(self, comb_class, word, children=None):
        if children is None:
            children = self.decomposition_function(comb_class)
        return Word(children[0].prefix), Word(word[len(children[0].prefix) :])

    @classmethod
    def from_dict(cls, d):
        return cls()

    def __str__(self):
        return self.formal_step()

    def __repr__(self):
        return self.__class__.__name__ + "()"


def make_pack(symmetries):
    # the pack of example.py, plus the `symmetries` slot
    return StrategyPack(
        initial_strats=[RemoveFrontOfPrefix()],
        inferral_strats=[],
        expansion_strats=[[ExpansionStrategy()]],
        ver_strats=[AtomStrategy()],
        symmetries=symmetries,
        name="example pack + symmetries=%r" % (symmetries,),
    )


NMAX = 8


def brute(start):
    return [sum(1 for _ in start.objects_of_size(n)) for n in range(NMAX)]


def run(patterns, db_factory, symmetries, verbose):
    """Returns (status, truncated) where status is one of
    'rejected', 'ok', 'WRONG-COUNT', 'exception:<type>', 'not-found' and truncated is the list
    of (start, recorded ends, labels of rule.children) with a NON-EMPTY child missing."""
    start = AvoidingWithPrefix("", patterns, ["a", "b"])
    truncated = []
    try:
        css = CombinatorialSpecificationSearcher(
            start, make_pack(symmetries), ruledb=db_factory()
        )
    except InvalidOperationError as e:
        print("    pack rejected at construction: InvalidOperationError: %s" % e)
        return "rejected", truncated
    orig_add = css.ruledb.add

    def logging_add(start_label, ends, rule):
        kids = tuple(css.classdb.get_label(c) for c in rule.children)
        # the clause allows dropping a child only if it is truly empty (and the strategy is
        # possibly_empty); at this call site nothing has been dropped yet by _clean_labels,
        # so `ends` should be the labels of ALL children
        missing = [
            (lab, str(c))
            for i, (lab, c) in enumerate(zip(kids, rule.children))
            if i >= len(ends) and not c.is_empty()
        ]
        flag = ""
        if tuple(ends) != kids:
            flag = "   <-- recorded ends != labels of rule.children"
            if missing:
                truncated.append((start_label, tuple(ends), kids))
                flag += "; NON-EMPTY children missing: %s" % (missing,)
        if verbose:
            print(
                "    ruledb.add(start=%d, ends=%r)  rule.children labels=%r  [%s]%s"
                % (start_label, tuple(ends), kids, type(rule.strategy).__name__, flag)
            )
        return orig_add(start_label, ends, rule)

    css.ruledb.add = logging_add
    # the start class was symmetry-expanded inside __init__ (before the wrapper was in place):
    # what the searcher recorded for it is visible in the database itself
    if verbose:
        keys = sorted(css.ruledb) if isinstance(css.ruledb, RuleDB) else None
        print("    rules recorded by __init__ (start class): %r" % (keys,))
    try:
        spec = css.auto_search(max_expansion_time=30)
    except InvalidOperationError as e:
        print("    pack rejected during the search: InvalidOperationError: %s" % e)
        return "rejected", truncated
    except SpecificationNotFound:
        return "not-found", truncated
    except Exception as e:  # pylint: disable=broad-except
        tb = traceback.extract_tb(e.__traceback__)
        where = " <- ".join("%s:%s" % (f.name, f.lineno) for f in tb[-3:][::-1])
        print(
            "    EXCEPTION %s: %s\n      at %s"
            % (type(e).__name__, str(e).split("\n")[0], where)
        )
        return "exception:" + type(e).__name__, truncated
    try:
        got = [spec.count_objects_of_size(n) for n in range(NMAX)]
    except Exception as e:  # pylint: disable=broad-except
        print("    EXCEPTION while counting %s: %s" % (type(e).__name__, e))
        return "exception-count:" + type(e).__name__, truncated
    truth = brute(start)
    if got != truth:
        print("    WRONG COUNTS %r != brute force %r" % (got, truth))
        return "WRONG-COUNT", truncated
    return "ok (%d rules, counts %r)" % (spec.number_of_rules(), got), truncated


def main():
    print("=" * 100)
    print("PART 1  what is recorded (RuleDB, words avoiding bb, symmetries=[ExpansionStrategy()])")
    print("=" * 100)
    status, truncated = run(["bb"], RuleDB, [ExpansionStrategy()], verbose=True)
    print("    -> auto_search:", status)
    print()
    present = bool(truncated)
    if status == "rejected":
        present = False

    print("=" * 100)
    print("PART 2  downstream consequence (auto_search -> get_specification), by database")
    print("=" * 100)
    summary = []
    all_truncated = list(truncated)
    for symname, syms in (
        ("no symmetries (baseline)", []),
        ("ExpansionStrategy (two-way, first child = the atom {prefix})", [ExpansionStrategy()]),
        ("LettersFirst (two-way, first child = C(prefix a))", [LettersFirst()]),
        ("OneWayExpansion (one-way, first child = the atom {prefix})", [OneWayExpansion()]),
    ):
        for dbname, dbf in (
            ("RuleDB", RuleDB),
            ("RuleDBForest", RuleDBForest),
        ):
            for patterns in (["bb"], ["ab"], ["aa", "bb"], ["aba"]):
                print("  symmetries=%s, %s, avoiding %r" % (symname, dbname, patterns))
                status, trunc = run(patterns, dbf, syms, verbose=False)
                all_truncated.extend(trunc)
                print("    -> %s   (truncated records: %d)" % (status, len(trunc)))
                summary.append((symname, dbname, tuple(patterns), status.split(" ")[0]))
    print()
    print("SUMMARY (status by symmetries / database; patterns bb, ab, {aa,bb}, aba)")
    for symname in dict.fromkeys(s[0] for s in summary):
        for dbname in ("RuleDB", "RuleDBForest"):
            sts = [s[3] for s in summary if s[0] == symname and s[1] == dbname]
            print("  %-62s %-13s %s" % (symname, dbname, " | ".join(sts)))
    wrong = [s for s in summary if s[3] == "WRONG-COUNT"]
    print()
    print("wrong specifications (counts != brute force): %d" % len(wrong))
    print("truncated records seen in total: %d" % len(all_truncated))
    if any(s[3] == "rejected" for s in summary):
        present = False
    if present:
        print(
            "BEHAVIOUR PRESENT: _symmetry_expand recorded a multi-child rule under the label of "
            "its first child only, e.g. add(%d, %r) for children %r"
            % truncated[0]
        )
        return 0
    print("BEHAVIOUR ABSENT (full child labels recorded, or the pack is rejected loudly)")
    return 1


if __name__ == "__main__":
    sys.exit(main())
