"""
C11, clause "reverse rules are used only when no choice without them exists."

A REAL search (CombinatorialSpecificationSearcher(...).auto_search() with RuleDBForest(reverse=True)) on
the library's own word universe (example.py: words over {a,b,c} avoiding aa, bb and cc as factors) with
one extra, honest, two-way one-child strategy ("exchange the letters a and b", offered only for classes
whose prefix starts with 'a').  A second universe (words over {a,b} avoiding aa, bb, searched level by
level with do_level() until has_specification()) shows the same.  `get_specification_rules()` hands out a `ReverseRule` OBJECT (the reverse of that
equivalence rule; `ReverseRule.forest_key` files it under RuleBucket.EQUIV, rule.py:1041, and
ForestRuleExtractor.MINIMIZE_ORDER minimises EQUIV after NORMAL, forest.py:433) although the keys of
the rules that are NOT ReverseRule objects alone already make the start class pump.

Run:  PYTHONPATH=/repo /venv/bin/python repro.py
exit 0 = behaviour present (a ReverseRule is handed out AND the forward keys alone pump the start class)
exit 1 = behaviour absent
"""
import logging
import random
import sys

import logzero

from comb_spec_searcher import (
    AtomStrategy,
    CombinatorialSpecificationSearcher,
    StrategyPack,
)
from comb_spec_searcher.exception import NoMoreClassesToExpandError
from comb_spec_searcher.rule_db import RuleDBForest
from comb_spec_searcher.rule_db.forest import TableMethod
from comb_spec_searcher.strategies.rule import (
    EquivalencePathRule,
    EquivalenceRule,
    ReverseRule,
    Rule,
)
from comb_spec_searcher.strategies.strategy import SymmetryStrategy
from comb_spec_searcher.typing import RuleBucket

# the library's own example universe (/repo/example.py, importable because PYTHONPATH is the repo root)
from example import AvoidingWithPrefix, ExpansionStrategy, RemoveFrontOfPrefix, Word

logzero.loglevel(logging.ERROR)
for _name in ("comb_spec_searcher.comb_spec_searcher", "comb_spec_searcher.rule_db.forest",
              "comb_spec_searcher.strategies.rule", "comb_spec_searcher.specification"):
    _mod = __import__(_name, fromlist=["logger"])
    if hasattr(_mod, "logger"):
        _mod.logger.setLevel(logging.ERROR)


# ----------------------------------------------------------------------------- the extra strategy
def swap(w, alphabet):
    a, b = alphabet[0], alphabet[1]
    return "".join(b if x == a else a if x == b else x for x in w)


class SwapIfPrefixStartsWithA(SymmetryStrategy):
    """
    Exchange the letters a and b in prefix and patterns: a size-preserving bijection, hence a two-way
    one-child rule with shift 0 (an equivalence rule).  Offered only for the classes whose prefix starts
    with the first letter, so the searcher only ever sees the rule  [a..] -> ([b..],)  and the pack can
    only re-create the direction  [b..] -> ([a..],)  as `rule.to_reverse_rule(0)`.
    """

    def decomposition_function(self, c):
        if c.just_prefix or not c.prefix or c.prefix[0] != c.alphabet[0]:
            return None
        return (
            AvoidingWithPrefix(
                swap(c.prefix, c.alphabet),
                sorted(swap(p, c.alphabet) for p in c.patterns),
                c.alphabet,
            ),
        )

    def formal_step(self):
        return "exchange the two letters"

    def forward_map(self, comb_class, obj, children=None):
        return (Word(swap(obj, comb_class.alphabet)),)

    def backward_map(self, comb_class, objs, children=None):
        yield Word(swap(objs[0], comb_class.alphabet))

    def __repr__(self):
        return "SwapIfPrefixStartsWithA()"

    def __str__(self):
        return self.formal_step()

    @classmethod
    def from_dict(cls, d):
        return cls()


def make_pack():
    return StrategyPack(
        initial_strats=[RemoveFrontOfPrefix(), SwapIfPrefixStartsWithA()],
        inferral_strats=[],
        expansion_strats=[[ExpansionStrategy()]],
        ver_strats=[AtomStrategy()],
        name="example.pack + one-directional letter exchange",
    )


# ----------------------------------------------------------------------------- recording database
class RecordingForest(RuleDBForest):
    """RuleDBForest that also remembers, for every rule object the searcher adds, the forest key of
    THAT object (never a ReverseRule: the searcher adds the pack's rules and the lazily created empty
    rules; the reverse keys are manufactured inside RuleDBForest.add and are not recorded here)."""

    def __init__(self, **kw):
        super().__init__(**kw)
        self.forward_keys = []
        self.added_types = set()

    def add(self, start, ends, rule):
        super().add(start, ends, rule)
        self.added_types.add(type(rule).__name__)
        assert not isinstance(rule, ReverseRule)
        self.forward_keys.append(
            rule.forest_key(self.classdb.get_label, self.classdb.is_empty)
        )


# ----------------------------------------------------------------------------- independent pumping test
def naive_pumps(keys, root):
    """Kleene iteration of  f(p) = max over rules p -> kids of min over kids (f(kid) + shift)
    (a rule without children gives infinity), from f = 0, capped; the class pumps iff it reaches the cap.
    Written here from the definition, shares no code with the library's TableMethod."""
    labels, g = set(), 1
    for k in keys:
        labels.add(k.parent)
        labels.update(k.children)
        g = max([g] + [abs(s) for s in k.shifts])
    cap = (len(labels) + 2) * g + 3
    f = {lab: 0 for lab in labels}
    changed = True
    while changed:
        changed = False
        for k in keys:
            v = min(
                [cap if f[c] >= cap else f[c] + s for c, s in zip(k.children, k.shifts)],
                default=cap,
            )
            v = max(0, min(v, cap))
            if v > f[k.parent]:
                f[k.parent] = v
                changed = True
    return f.get(root, 0) >= cap


def table_pumps(keys, root):
    tm = TableMethod()
    for k in keys:
        tm.add_rule_key(k)
    return tm.is_pumping(root)


def underlying(rule):
    return rule.original_rule if isinstance(rule, EquivalenceRule) else rule


def show_key(k):
    return "%d -> %s shifts %s bucket %s" % (k.parent, k.children, k.shifts, k.bucket.name)


def search(start, mode, ruledb):
    css = CombinatorialSpecificationSearcher(start, make_pack(), ruledb=ruledb)
    if mode == "auto_search":
        return css, css.auto_search()
    try:
        while not css.ruledb.has_specification():
            css.do_level()
    except NoMoreClassesToExpandError:
        pass
    return css, css.get_specification()


def run(start, mode):
    css, spec = search(start, mode, RecordingForest(reverse=True))
    db, cdb = css.ruledb, css.classdb
    root = css.start_label
    rules = list(db.get_specification_rules())

    print("=" * 100)
    print("== real search (%s): words over {%s} avoiding %s; RuleDBForest(reverse=True) =="
          % (mode, ",".join(start.alphabet), ", ".join(start.patterns)))
    print("classes (label: class):")
    for lab in range(len(cdb.label_to_info)):
        c = cdb.get_class(lab)
        print("   %d: prefix %r%s, avoiding %s" % (lab, c.prefix, " (just the prefix)" if c.just_prefix else "", list(c.patterns)))
    print("rule object types the searcher added:", sorted(db.added_types))
    print("rules handed out by get_specification_rules():")
    for r in rules:
        k = r.forest_key(cdb.get_label, cdb.is_empty)
        print("   %-16s %s   [%s]" % (type(r).__name__, show_key(k), r.formal_step))

    rev = [r for r in rules if isinstance(underlying(r), ReverseRule)]
    print()
    print("ReverseRule objects handed out: %d" % len(rev))
    for r in rev:
        u = underlying(r)
        k = u.forest_key(cdb.get_label, cdb.is_empty)
        ko = u.original_rule.forest_key(cdb.get_label, cdb.is_empty)
        print("   key      :", show_key(k))
        print("   bucket   :", k.bucket.name, "(RuleBucket.REVERSE would be the bucket minimised first)")
        print("   is_equivalence():", u.is_equivalence(cdb.is_empty), " idx:", u.idx)
        print("   reverse of:", show_key(ko), "[%s]" % u.original_rule.formal_step)
        alt = [fk for fk in db.forward_keys if fk.parent == k.parent]
        print("   forward (non-ReverseRule) keys available for the same class %d:" % k.parent)
        for fk in alt:
            print("        ", show_key(fk))

    fwd = list(db.forward_keys)
    allkeys = list(db.table_method._rules)
    n_rev_universe = len(allkeys) - len(fwd)
    buckets_all = {}
    for k in allkeys:
        buckets_all[k.bucket.name] = buckets_all.get(k.bucket.name, 0) + 1
    print()
    print("universe: %d keys in the table method %r, of which %d are keys of the added (forward) rules"
          % (len(allkeys), buckets_all, len(fwd)))
    p_tm = table_pumps(fwd, root)
    p_naive = naive_pumps(fwd, root)
    print("forward keys alone pump the start class %d:  fresh TableMethod: %s   naive least fixed point: %s"
          % (root, p_tm, p_naive))
    nonrev_bucket = [k for k in allkeys if k.bucket != RuleBucket.REVERSE]
    print("(bucket reading) keys outside bucket REVERSE pump the start class: %s; bucket-REVERSE keys used: %d"
          % (naive_pumps(nonrev_bucket, root),
             sum(r.forest_key(cdb.get_label, cdb.is_empty).bucket == RuleBucket.REVERSE for r in rules)))

    # control: the same search without reverse keys finds a specification
    css2, spec2 = search(start, mode, RuleDBForest(reverse=False))
    rules2 = list(css2.ruledb.get_specification_rules())
    print("control RuleDBForest(reverse=False): specification with %d rules, ReverseRule objects: %d"
          % (spec2.number_of_rules(), sum(isinstance(underlying(r), ReverseRule) for r in rules2)))

    # ------------------------------------------------------------------ is the specification still right?
    print()
    print("== the specification that contains the ReverseRule ==")
    truth = [sorted(start.objects_of_size(n)) for n in range(7)]
    counts = [spec.count_objects_of_size(n) for n in range(7)]
    print("counts n<=6      :", counts, " brute force:", [len(t) for t in truth],
          " equal:", counts == [len(t) for t in truth])
    gen_ok = True
    try:
        for n in range(7):
            got = sorted(spec.generate_objects_of_size(n))
            gen_ok = gen_ok and got == truth[n]
        print("generate_objects_of_size n<=6 equals brute force (as sorted lists, no duplicates):", gen_ok)
    except Exception as e:  # pylint: disable=broad-except
        gen_ok = False
        print("generate_objects_of_size raised %r" % (e,))
    samp_ok = True
    try:
        random.seed(0)
        for n in range(7):
            for _ in range(20):
                w = spec.random_sample_object_of_size(n)
                samp_ok = samp_ok and w in truth[n]
        print("random_sample_object_of_size n<=6 returns objects of the class:", samp_ok)
    except Exception as e:  # pylint: disable=broad-except
        samp_ok = False
        print("random_sample_object_of_size raised %r" % (e,))
    try:
        sane = all(spec.sanity_check(6) for _ in [0])
        print("spec.sanity_check(6):", sane)
    except Exception as e:  # pylint: disable=broad-except
        sane = False
        print("spec.sanity_check(6) raised %r" % (e,))

    # ------------------------------------------------------------------ is the reversed equivalence functional?
    func_ok = True
    for r in rev:
        u = underlying(r)
        par, child = u.comb_class, u.children[0]
        print("the handed-out ReverseRule  %r -> (%r,):" % (par.prefix, child.prefix))
        try:
            rt = True
            for n in range(7):
                for w in par.objects_of_size(n):
                    img = u.forward_map(w)
                    back = list(u.backward_map(img))
                    rt = rt and len(img) == 1 and img[0] in set(child.objects_of_size(n)) and back == [w]
            print("   forward_map lands in the child and backward_map inverts it (n<=6):", rt)
            func_ok = func_ok and rt
        except Exception as e:  # pylint: disable=broad-except
            func_ok = False
            print("   forward_map/backward_map raised %r" % (e,))
        try:
            # a fresh specification from the same rules, so that no cache is warm: (sanity_check after
            # generate_objects_of_size trips over a touched defaultdict key for sizes without objects --
            # for forward rules as well; nothing to do with reversal)
            fresh = css.get_specification()
            in_spec = fresh.get_rule(par)
            inner = [type(x).__name__ for x in in_spec.rules] if isinstance(in_spec, EquivalencePathRule) else []
            print("   inside CombinatorialSpecification the rule of %r is a %s%s with constructor %s"
                  % (par.prefix, type(in_spec).__name__, (" of " + repr(inner)) if inner else "",
                     type(in_spec.constructor).__name__))
            sane_rule = all(in_spec.sanity_check(n) for n in range(7))
            print("   that rule's own sanity_check(n) for n<=6 (count, objects, sampling against brute force):", sane_rule)
            ok = all(
                sorted(in_spec.generate_objects_of_size(n)) == sorted(par.objects_of_size(n))
                for n in range(7)
            )
            print("   its generate_objects_of_size equals brute force (n<=6):", ok,
                  "  count_objects_of_size:", [in_spec.count_objects_of_size(n) for n in range(7)])
            func_ok = func_ok and ok and sane_rule
        except Exception as e:  # pylint: disable=broad-except
            func_ok = False
            print("   rule-level generation raised %r" % (e,))
        try:
            u.constructor.get_sub_objects((child.get_objects,), 1)
            bare = "works"
        except NotImplementedError:
            bare = "NotImplementedError"
        print("   (the BARE ReverseRule object has constructor %s, get_sub_objects: %s -- never used: a"
              % (type(u.constructor).__name__, bare))
        print("    specification always wraps an equivalence rule, reversed or not, in an EquivalencePathRule)")

    # contrast: the reverse of a NON-equivalence rule (what bucket REVERSE holds)
    for r in rules:
        if isinstance(r, Rule) and not isinstance(r, ReverseRule) and len(r.children) > 1 and r.is_reversible():
            rr = r.to_reverse_rule(len(r.children) - 1)
            k = rr.forest_key(cdb.get_label, cdb.is_empty)
            msg = []
            for name, call in (
                ("forward_map", lambda: rr.forward_map(next(iter(rr.comb_class.objects_of_size(rr.comb_class.minimum_size_of_object()))))),
                ("constructor.get_sub_objects", lambda: rr.constructor.get_sub_objects((), 1)),
                ("constructor.random_sample_sub_objects", lambda: rr.constructor.random_sample_sub_objects(1, (), (), 1)),
            ):
                try:
                    call()
                    msg.append("%s: works" % name)
                except NotImplementedError:
                    msg.append("%s: NotImplementedError" % name)
                except Exception as e:  # pylint: disable=broad-except
                    msg.append("%s: %s" % (name, type(e).__name__))
            print("contrast, reverse of the non-equivalence rule [%s] w.r.t. its last child: bucket %s, constructor %s; %s"
                  % (r.formal_step, k.bucket.name, type(rr.constructor).__name__, "; ".join(msg)))
            break

    print()
    present = bool(rev) and p_tm and p_naive
    print("SUMMARY: ReverseRule handed out: %s; forward keys alone pump the start class: %s; "
          "specification correct (counts/objects/sampling): %s; reversed equivalence fully functional: %s"
          % (bool(rev), p_tm and p_naive, counts == [len(t) for t in truth] and gen_ok and samp_ok, func_ok))
    print("behaviour present" if present else "behaviour absent")
    return present


def main():
    first = run(AvoidingWithPrefix("", ["aa", "bb", "cc"], ["a", "b", "c"]), "auto_search")
    second = run(AvoidingWithPrefix("", ["aa", "bb"], ["a", "b"]), "do_level until has_specification")
    print()
    print("behaviour present in universe 1 (auto_search): %s, in universe 2 (do_level): %s" % (first, second))
    return 0 if first else 1


if __name__ == "__main__":
    sys.exit(main())
