"""Brute-force search over short RuleDB histories (scratch; see verdict.md for the results)."""
import itertools
import random
import sys
import time
from collections import defaultdict
from multiprocessing import Pool
from types import SimpleNamespace

from comb_spec_searcher.rule_db import RuleDB
from comb_spec_searcher.strategies.rule import VerificationRule
from comb_spec_searcher import tree_searcher


class FakeRule:
    def __init__(self, n, two_way):
        self.children = tuple(range(n))
        self.possibly_empty = False
        self._tw = two_way
        self.strategy = "S"

    def is_two_way(self):
        return self._tw


class FakeVer(VerificationRule):  # pylint: disable=abstract-method
    children = ()
    possibly_empty = False
    strategy = "V"

    def __init__(self):  # pylint: disable=super-init-not-called
        pass

    def is_two_way(self):
        return False


FakeVer.__abstractmethods__ = frozenset()
VER = FakeVer()
RULES = {(n, tw): FakeRule(n, tw) for n in range(4) for tw in (False, True)}


def mkdb(root, iterative):
    db = RuleDB()
    db.link_searcher(SimpleNamespace(start_label=root, classdb=None, classqueue=None,
                                     strategy_pack=SimpleNamespace(iterative=iterative)))
    return db


def do_add(db, a):
    s, e, k = a  # k: 'p' plain, 'o' one-way, 't' two-way, 'v' verification
    if k == "v":
        db.add(s, e, VER)
    else:
        db.add(s, e, RULES[(len(e), k == "t")])


def pure_ver(db, l):
    """is_verified without touching the database"""
    p = db.equivdb.parents
    while l in p and p[l] != l:
        l = p[l]
    return l in db.equivdb.verified_roots


# ------------------------------------------------------------------ reference (no library code)
def sccs(labels, edges):
    reach = {l: {l} for l in labels}
    ch = True
    while ch:
        ch = False
        for a, b in edges:
            for l in labels:
                if a in reach[l] and not reach[b] <= reach[l]:
                    reach[l] |= reach[b]
                    ch = True
    cls = {}
    for l in labels:
        cls[l] = min(m for m in labels if m in reach[l] and l in reach[m])
    return cls


_REF = {}


def ref(labels, hist, root, iterative):
    """(cls, Q, fix, has_spec): classes named by their least label, quotient rules, set of classes in the
    fixed point (recursive: gfp; iterative: classes with a rule all of whose children are derivable bottom-up
    given the root's class), has_spec."""
    key = (hist, root, iterative)
    r = _REF.get(key)
    if r is not None:
        return r
    edges = []
    for s, e, k in hist:
        if len(e) == 1:
            edges.append((s, e[0]))
            if k == "t":
                edges.append((e[0], s))
    cls = sccs(labels, edges)
    Q = defaultdict(set)
    for s, e, k in hist:
        if len(e) == 1 and cls[s] == cls[e[0]]:
            continue
        Q[cls[s]].add(tuple(sorted(cls[x] for x in e)))
    if iterative:
        der = {cls[root]}
        ch = True
        fix = set()
        while ch:
            ch = False
            for k_, rs in Q.items():
                if k_ in fix:
                    continue
                if any(all(x in der for x in r_) for r_ in rs):
                    fix.add(k_)
                    der.add(k_)
                    ch = True
    else:
        fix = set(Q)
        ch = True
        while ch:
            ch = False
            for k_ in list(fix):
                if not any(all(x in fix for x in r_) for r_ in Q[k_]):
                    fix.discard(k_)
                    ch = True
    r = (cls, Q, fix, cls[root] in fix)
    if len(_REF) > 400000:
        _REF.clear()
    _REF[key] = r
    return r


def check_tree(node, cls, Q, fix, root, iterative):
    """None or a reason; node labels are library representatives"""
    exp = defaultdict(set)
    leaves = set()
    for n in node.nodes():
        c = cls[n.label]
        if n.children:
            exp[c].add(tuple(sorted(cls[x.label] for x in n.children)))
        else:
            leaves.add(c)
    if cls[node.label] != cls[root]:
        return "root of the tree is not the start class"
    for c, rs in exp.items():
        if len(rs) > 1:
            return "class %d gets two rules %r" % (c, rs)
        if not rs <= Q[c]:
            return "class %d uses unrecorded rule %r" % (c, rs)
    for c in leaves:
        if () in Q[c]:
            continue
        if iterative:
            if c != cls[root]:
                return "iterative: childless node %d is neither verified nor the root" % c
            if c not in exp and () not in Q[c]:
                return "root has no rule"
        elif c not in exp:
            return "class %d is left without a rule" % c
    return None


def adds_for(labels):
    out = []
    for s in labels:
        out.append((s, (), "p"))
        out.append((s, (), "v"))
        for e in labels:
            out.append((s, (e,), "o"))
            out.append((s, (e,), "t"))
        for e in itertools.combinations_with_replacement(labels, 2):
            out.append((s, e, "p"))
    return out


# actions after an add: 0 nothing, 1 has_specification, 2 is_verified on every label, 3 both
def run_history(labels, hist, pattern, root, iterative, finders, stats):
    """returns list of problems (strings); updates stats"""
    db = mkdb(root, iterative)
    probs = []
    n = len(hist)
    for i, a in enumerate(hist):
        do_add(db, a)
        pre = hist[: i + 1]
        cls, Q, fix, hs_ref = ref(labels, pre, root, iterative)
        # (b): marks present now (before any query at this position) against the CURRENT rules
        for l in labels:
            if pure_ver(db, l) and cls[l] not in fix:
                if iterative and cls[l] == cls[root]:
                    stats["stale_root_before_query"] += 1
                else:
                    probs.append("(b) after add %d, before a query: label %d marked verified, class not in the fixed point" % (i, l))
        act = pattern[i] if i < n - 1 else 3
        if act & 2 and i < n - 1:
            for l in labels:
                db.is_verified(l)
        if act & 1:
            hs = db.has_specification()
            if hs != hs_ref:
                probs.append("(c) has_specification after add %d = %r, reference %r" % (i, hs, hs_ref))
            stats["hs_true" if hs else "hs_false"] += 1
            for l in labels:
                v = pure_ver(db, l)
                want = cls[l] in fix
                if v != want:
                    if iterative and cls[l] == cls[root] and v and not want:
                        stats["stale_root_after_query"] += 1
                        if i == n - 1:
                            stats["stale_root_final"] += 1
                    else:
                        probs.append("(b) after has_specification at %d: is_verified(%d)=%r, class in fixed point: %r" % (i, l, v, want))
            if i == n - 1:
                for l in labels:
                    if db.is_verified(l) != pure_ver(db, l):
                        probs.append("observer disagrees with is_verified")
                if hs and finders:
                    rt = db.equivdb[root]
                    if iterative:
                        t = db._get_specification_node(0, False)
                        w = check_tree(t, cls, Q, fix, root, True)
                        if w:
                            probs.append("(c) iterative finder: " + w + " tree " + str(t))
                    else:
                        for sm in (False, True):
                            t = db._get_specification_node(0, sm)
                            w = check_tree(t, cls, Q, fix, root, False)
                            if w:
                                probs.append("(c) finder smallest=%r: %s tree %s" % (sm, w, t))
                        for j, t in enumerate(tree_searcher.proof_tree_generator_dfs(db.pruned_dict, rt)):
                            if j >= 3:
                                break
                            w = check_tree(t, cls, Q, fix, root, False)
                            if w:
                                probs.append("(c) dfs generator: %s tree %s" % (w, t))
                stats["trees"] += 1 if (hs and finders) else 0
    return probs


def work(arg):
    labels, first, nadds, patterns, root, iterative, finders = arg
    random.seed(0)
    ADDS = adds_for(labels)
    stats = defaultdict(int)
    bad = []
    for rest in itertools.product(ADDS, repeat=nadds - 1):
        hist = (first,) + rest
        for pat in patterns:
            stats["runs"] += 1
            p = run_history(labels, hist, pat, root, iterative, finders, stats)
            if p and len(bad) < 20:
                bad.append((hist, pat, root, iterative, p))
            if p:
                stats["bad"] += 1
    return dict(stats), bad


def space(name, labels, nadds, patterns, roots, finders):
    t0 = time.time()
    ADDS = adds_for(labels)
    jobs = [(labels, a, nadds, patterns, root, it, finders) for a in ADDS for root in roots for it in (False, True)]
    tot = {False: defaultdict(int), True: defaultdict(int)}
    bads = []
    with Pool(16) as pool:
        for job, (st, bad) in zip(jobs, pool.imap(work, jobs, chunksize=1)):
            for k, v in st.items():
                tot[job[5]][k] += v
            bads.extend(bad)
    print("== %s: labels %r, exactly %d adds (%d distinct adds), %d query patterns, roots %r, finders %r: %.0fs" % (
        name, labels, nadds, len(ADDS), len(patterns), roots, finders, time.time() - t0))
    for it in (False, True):
        print("   %s: %s" % ("iterative" if it else "recursive", dict(tot[it])))
    print("   problems: %d" % len(bads))
    for b in bads[:15]:
        print("   ", b)
    sys.stdout.flush()


if __name__ == "__main__":
    which = sys.argv[1:]
    if "s2" in which:
        for n in (1, 2, 3):
            pats = list(itertools.product((0, 1, 2, 3), repeat=n - 1))
            space("S2", (0, 1, 2, 3), n, pats, (0, 3), True)
    if "s1" in which:
        pats = [(0, 0, 0), (1, 1, 1), (3, 3, 3), (1, 0, 0), (0, 1, 0), (0, 0, 1)]
        space("S1", (0, 1, 2), 4, pats, (0, 2), True)
