"""C05 triage: stale `verified` marks of RuleDBBase in ITERATIVE mode.

Run: PYTHONPATH=/repo /venv/bin/python repro.py
exit 0 = stale marks present (HEAD), exit 1 = no stale mark on any of the histories below.

For each history the script prints what the library answers (has_specification, pruned dict,
is_verified of every label) next to an independent reference (no library code): classes = strongly
connected components of the unary rules, rules taken up to these classes, and
  recursive: greatest fixed point of "has a rule all of whose children survive",
  iterative: classes having a rule all of whose children are derivable bottom-up when the start
             class's own class is given (= keys of the iteratively pruned dictionary).
A mark is STALE when is_verified(l) is True and l's class is not in that fixed point of the CURRENT rules.
The same history is replayed without the intermediate queries to show that the mark is made by the
earlier query, and that has_specification() itself is never affected.
"""
import logging
import sys
from collections import defaultdict
from types import SimpleNamespace

import logzero

from comb_spec_searcher.rule_db import RuleDB

logzero.loglevel(logging.ERROR)


class FakeRule:
    """what RuleDBBase.add reads of a rule: children, possibly_empty, is_two_way(), strategy"""

    def __init__(self, n, two_way):
        self.children = tuple(range(n))
        self.possibly_empty = False
        self._tw = two_way
        self.strategy = "S"

    def is_two_way(self):
        return self._tw


def mkdb(root, iterative):
    db = RuleDB()
    db.link_searcher(SimpleNamespace(start_label=root, classdb=None, classqueue=None,
                                     strategy_pack=SimpleNamespace(iterative=iterative)))
    return db


# ------------------------------------------------------------------ reference
def reference(labels, rules, root, iterative):
    edges = []
    for s, e, tw in rules:
        if len(e) == 1:
            edges.append((s, e[0]))
            if tw:
                edges.append((e[0], s))
    reach = {l: {l} for l in labels}
    ch = True
    while ch:
        ch = False
        for a, b in edges:
            for l in labels:
                if a in reach[l] and not reach[b] <= reach[l]:
                    reach[l] |= reach[b]
                    ch = True
    cls = {l: min(m for m in labels if m in reach[l] and l in reach[m]) for l in labels}
    Q = defaultdict(set)
    for s, e, tw in rules:
        if len(e) == 1 and cls[s] == cls[e[0]]:
            continue
        Q[cls[s]].add(tuple(sorted(cls[x] for x in e)))
    if iterative:
        der, fix, ch = {cls[root]}, set(), True
        while ch:
            ch = False
            for k, rs in Q.items():
                if k not in fix and any(all(x in der for x in r) for r in rs):
                    fix.add(k)
                    der.add(k)
                    ch = True
    else:
        fix, ch = set(Q), True
        while ch:
            ch = False
            for k in list(fix):
                if not any(all(x in fix for x in r) for r in Q[k]):
                    fix.discard(k)
                    ch = True
    return cls, fix


def play(title, labels, root, iterative, ops):
    """ops: ('add', start, ends, two_way) | ('hs',). Returns set of stale labels at the end."""
    print("--- %s [%s, start label %d]" % (title, "iterative" if iterative else "recursive", root))
    db = mkdb(root, iterative)
    rules = []
    for op in ops:
        if op[0] == "add":
            _, s, e, tw = op
            db.add(s, tuple(e), FakeRule(len(e), tw))
            rules.append((s, tuple(e), tw))
            print("   add(%d, %r%s)" % (s, tuple(e), ", two-way" if tw else (", one-way" if len(e) == 1 else "")))
        else:
            cls, fix = reference(labels, rules, root, iterative)
            hs = db.has_specification()
            print("   has_specification() = %r   [reference: %r]   pruned dict = %r" % (
                hs, cls[root] in fix, {k: sorted(v) for k, v in db._pruned_dict.items()}))
            if hs != (cls[root] in fix):
                print("   !!! has_specification differs from the reference")
                sys.exit(2)
    cls, fix = reference(labels, rules, root, iterative)
    ver = [l for l in labels if db.is_verified(l)]
    want = [l for l in labels if cls[l] in fix]
    stale = sorted(set(ver) - set(want))
    print("   is_verified True for %r   [reference: classes in the fixed point of the current rules: %r]   STALE: %r" % (
        ver, want, stale))
    return set(stale)


L = (0, 1, 2, 3)
found = set()

# (1) the documented example: the query after the first add marks 1 (derivable GIVEN the start class 0);
#     the second add closes a cycle of one-way equivalences, 0 and 1 become one class, the mark moves to it
found |= play("documented example", L, 0, True,
              [("add", 1, (0,), False), ("hs",), ("add", 0, (1,), False), ("hs",)])
play("same history without the intermediate query", L, 0, True,
     [("add", 1, (0,), False), ("add", 0, (1,), False), ("hs",)])

# (2) variants. (2a) a chain of one-way rules 1 -> 2 -> 0 (both 1 and 2 derivable given 0) closed by 0 -> 1: three
#     stale labels. (2b) the closing rule may be two-way. (2c) NOT stale: if the marked class was derivable by a
#     non-unary rule (1 -> (0,0)), that rule survives the merge as c -> (c,c), which is derivable with recursion
#     to the start class's own class: a specification is reported. So a stale mark needs a one-way unary rule
#     into the start class's class (unary rules inside one class are dropped by rules_up_to_equivalence).
found |= play("(2a) one-way chain", L, 0, True,
              [("add", 2, (0,), False), ("add", 1, (2,), False), ("hs",), ("add", 0, (1,), False), ("hs",)])
found |= play("(2b) closing rule two-way", L, 0, True,
              [("add", 1, (0,), False), ("hs",), ("add", 0, (1,), True), ("hs",)])
play("(2c) mark by a binary rule: not stale", L, 0, True,
     [("add", 1, (0, 0), False), ("hs",), ("add", 0, (1,), True), ("hs",)])

# (3) the stale mark does not leak into has_specification / the finder: a rule 0 -> (2, 3) whose children are
#     never derived keeps the answer False, and 0 -> () afterwards gives True with a valid tree
play("stale mark, then more rules: has_specification stays exact", L, 0, True,
     [("add", 1, (0,), False), ("hs",), ("add", 0, (1,), False), ("hs",),
      ("add", 0, (2, 3), False), ("hs",), ("add", 1, (), False), ("hs",)])

# (4) recursive mode: the same histories leave no stale mark (marks = greatest fixed point, which only grows)
r = play("documented example, recursive mode", L, 0, False,
         [("add", 1, (0,), False), ("hs",), ("add", 0, (1,), False), ("hs",)])
r |= play("(2a) in recursive mode", L, 0, False,
          [("add", 2, (0,), False), ("add", 1, (2,), False), ("hs",), ("add", 0, (1,), False), ("hs",)])
if r:
    print("!!! stale mark in recursive mode: %r" % sorted(r))
    sys.exit(2)

# (5) what the searcher does with the mark (comb_spec_searcher.py:602 and :159):
#       if self.expand_verified or not self.ruledb.is_verified(label): self._expand(...)
#     so after (1)/(2) the start class (and every class equivalent to it) is no longer expanded, although it has
#     no specification.
print()
if found:
    print("STALE MARKS PRESENT (iterative mode): labels %r verified without being in the fixed point" % sorted(found))
    sys.exit(0)
print("no stale mark")
sys.exit(1)
