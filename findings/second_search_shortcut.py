"""
F-C13c  --  the second search of ParallelSpecFinder accepts a pair of labels that both already
have a rule without checking that these two rules match each other.

Run:  PYTHONPATH=/repo /venv/bin/python second_search_shortcut.py
Exit code 0 and "DEFECT REPRODUCED" when the unchanged code shows the defect, 1 otherwise.

Universe (true statements about sets of words, checked below by brute force): all words over {a,b}
with a given prefix; every class exists in several COPIES (same words, different class), and a
class may be split by its first letter or by its first two letters:

    words with prefix ""  =  {""} + a.. + b..                                  (one letter)
    words with prefix ""  =  {""} + {a} + {b} + aa.. + ab.. + ba.. + bb..      (two letters)
    words with prefix p   =  {p} x words with prefix ""                        (prefix removed)

Searcher 1: copy 0 of the start class has both splittings, copy 1 only the one-letter one.
Searcher 2: copy 0 of the start class has only the two-letter one, copy 1 has both.

ParallelSpecFinder.find() returns two specifications (both count correctly) that are NOT isomorphic:
Isomorphism.check is False both ways, Bijection.construct returns None.  In
_search_matching_info._rec the pair (copy 0 of side 1, copy 1 of side 2) is reached when both labels
already have a rule -- copy 0 of side 1 the one-letter rule (chosen against a partner that has only
that rule), copy 1 of side 2 the two-letter rule; _search_matching_info_recursion_base_cases checks
each of the two rules against matching_info separately ("some partner rule exists") and answers
VALID, although the one-letter rule and the two-letter rule are not a matching of that pair.
EqPathParallelSpecFinder.find() raises KeyError on the same input
(_validate_atoms_for_existing_entries looks the unmatched combination up in matching_info).
"""
import itertools
import logging
import sys

import logzero

logzero.loglevel(logging.ERROR)

from comb_spec_searcher import (  # noqa: E402
    AtomStrategy,
    CartesianProductStrategy,
    CombinatorialClass,
    CombinatorialObject,
    CombinatorialSpecificationSearcher,
    DisjointUnionStrategy,
    StrategyPack,
)
from comb_spec_searcher.bijection import EqPathParallelSpecFinder, ParallelSpecFinder  # noqa: E402
from comb_spec_searcher.isomorphism import Bijection, Isomorphism  # noqa: E402

# class key "p/t": words with prefix p, copy t;  "=w/t": the single word w, copy t
TABLE = {
    "1": {
        "/0": [["U", ["=/0", "a/1", "b/0"]], ["U", ["=/0", "=a/0", "=b/0", "aa/0", "ab/0", "ba/0", "bb/1"]]],
        "/1": [["U", ["=/0", "a/1", "b/0"]]],
        "a/1": [["P", ["=a/0", "/1"]]], "b/0": [["P", ["=b/0", "/1"]]],
        "aa/0": [["P", ["=aa/0", "/1"]]], "ab/0": [["P", ["=ab/0", "/0"]]],
        "ba/0": [["P", ["=ba/0", "/0"]]], "bb/1": [["P", ["=bb/0", "/1"]]],
    },
    "2": {
        "/0": [["U", ["=/0", "=a/0", "=b/0", "aa/0", "ab/1", "ba/1", "bb/1"]]],
        "/1": [["U", ["=/0", "a/1", "b/1"]], ["U", ["=/0", "=a/0", "=b/0", "aa/0", "ab/1", "ba/0", "bb/0"]]],
        "a/1": [["P", ["=a/0", "/1"]]], "b/1": [["P", ["=b/0", "/1"]]],
        "aa/0": [["P", ["=aa/0", "/1"]]], "ab/1": [["P", ["=ab/0", "/1"]]],
        "ba/0": [["P", ["=ba/0", "/1"]]], "ba/1": [["P", ["=ba/0", "/1"]]],
        "bb/0": [["P", ["=bb/0", "/1"]]], "bb/1": [["P", ["=bb/0", "/1"]]],
    },
}


class Wd(str, CombinatorialObject):
    def size(self):
        return str.__len__(self)


class C(CombinatorialClass):
    def __init__(self, side, key):
        self.side, self.key = side, key
        body, t = key.rsplit("/", 1)
        self.atom = body.startswith("=")
        self.pre = body[1:] if self.atom else body
        self.tag = int(t)

    def is_empty(self):
        return False

    def is_atom(self):
        return self.atom

    def minimum_size_of_object(self):
        return len(self.pre)

    def objects_of_size(self, n):
        if self.atom:
            if n == len(self.pre):
                yield Wd(self.pre)
        elif n >= len(self.pre):
            for w in itertools.product("ab", repeat=n - len(self.pre)):
                yield Wd(self.pre + "".join(w))

    def to_jsonable(self):
        return {"side": self.side, "key": self.key}

    @classmethod
    def from_dict(cls, d):
        return cls(d["side"], d["key"])

    def __eq__(self, o):
        return isinstance(o, C) and (self.side, self.key) == (o.side, o.key)

    def __hash__(self):
        return hash((self.side, self.key))

    def __repr__(self):
        return "C(%r, %r)" % (self.side, self.key)

    def __str__(self):
        what = "the word %r" % self.pre if self.atom else "words starting with %r" % self.pre
        return "%s (copy %d)" % (what, self.tag)


class _Table:
    def __init__(self, i):
        super().__init__()
        self.i = i

    def decomposition_function(self, c):
        rs = [r for r in TABLE[c.side].get(c.key, []) if r[0] == self.KIND]
        return tuple(C(c.side, k) for k in rs[self.i][1]) if self.i < len(rs) else None

    def formal_step(self):
        return "%s rule %d of the table" % (self.KIND, self.i)

    @classmethod
    def from_dict(cls, d):
        return cls(d["i"])

    def __repr__(self):
        return "%s(%d)" % (type(self).__name__, self.i)

    def __str__(self):
        return self.formal_step()


class Split(_Table, DisjointUnionStrategy):
    KIND = "U"

    def forward_map(self, c, obj, children=None):
        children = children or self.decomposition_function(c)
        return tuple(obj if obj in set(ch.objects_of_size(len(obj))) else None for ch in children)


class Peel(_Table, CartesianProductStrategy):
    KIND = "P"

    def forward_map(self, c, obj, children=None):
        children = children or self.decomposition_function(c)
        return (Wd(obj[: len(children[0].pre)]), Wd(obj[len(children[0].pre):]))

    def backward_map(self, c, objs, children=None):
        yield Wd("".join(objs))


def searcher(side):
    pack = StrategyPack([Peel(0)], [], [[Split(0), Split(1)]], [AtomStrategy()], name="table " + side)
    return CombinatorialSpecificationSearcher(C(side, "/0"), pack)


def check_table():
    """every rule of the table is a true decomposition of its class (sizes 0..5)"""
    for side, t in TABLE.items():
        for key, rs in t.items():
            c = C(side, key)
            for kind, kids in rs:
                ks = [C(side, k) for k in kids]
                for n in range(6):
                    truth = sorted(c.objects_of_size(n))
                    if kind == "U":
                        got = sorted(w for k in ks for w in k.objects_of_size(n))
                    else:
                        got = sorted(
                            "".join(p)
                            for sizes in itertools.product(range(n + 1), repeat=len(ks))
                            if sum(sizes) == n
                            for p in itertools.product(*[list(k.objects_of_size(s)) for k, s in zip(ks, sizes)])
                        )
                    assert got == truth, (side, key, kind, kids, n)


def main():
    check_table()
    defect = []
    specs = ParallelSpecFinder(searcher("1"), searcher("2")).find()
    if specs is None:
        print("ParallelSpecFinder.find() returned None")
    else:
        s1, s2 = specs
        for s in specs:
            counts = [s.count_objects_of_size(n) for n in range(8)]
            assert counts == [2 ** n for n in range(8)], counts
        print(s1)
        print(s2)
        i12, i21 = Isomorphism.check(s1, s2), Isomorphism.check(s2, s1)
        bij = Bijection.construct(s1, s2)
        print("both specifications count 1, 2, 4, 8, ... correctly")
        print("Isomorphism.check(spec1, spec2) =", i12, "  Isomorphism.check(spec2, spec1) =", i21)
        print("Bijection.construct(spec1, spec2) =", bij)
        if not i12 or not i21 or bij is None:
            defect.append("ParallelSpecFinder.find() returned two specifications that are not isomorphic")
    try:
        r = EqPathParallelSpecFinder(searcher("1"), searcher("2")).find()
        print("EqPathParallelSpecFinder.find() returned", "None" if r is None else "two specifications")
    except KeyError as e:
        print("EqPathParallelSpecFinder.find() raised KeyError:", e)
        defect.append("EqPathParallelSpecFinder.find() raised KeyError")
    if defect:
        print("DEFECT REPRODUCED: " + "; ".join(defect))
        return 0
    print("defect not observed")
    return 1


if __name__ == "__main__":
    sys.exit(main())
