"""
F-C13d  --  the pair of specifications returned by the parallel finder is rejected by Isomorphism.check
(and Bijection.construct returns None) when one of them needs two CONSECUTIVE equivalence steps.

Run:  PYTHONPATH=/repo /venv/bin/python chained_equivalence_steps.py     (exit code 0 = reproduced)

Searcher 1: words over {a,b}; the class "all words" exists in three copies 0, 1, 2 (same words,
different classes) joined by two-way unary rules  copy 1 -> copy 2 -> copy 0, so all three share one
equivalence label; copy 1 is reached through  a.. = {a} x copy 1,  copy 2 through  b.. = {b} x copy 2.
Searcher 2: the same grammar without copies.

The finder works up to equivalence labels and (rightly) matches the two universes.  The first
specification it builds contains  copy 1 = copy 2  and  copy 2 = copy 0  as two separate equivalence
rules (copy 2 is itself a child of a product rule, so CombinatorialSpecification cannot fold the two
steps into one path).  Since e943cb6 Isomorphism skips exactly one equivalence step on each side,
so Isomorphism.check(spec1, spec2) is False both ways and Bijection.construct gives None although the
two specifications are isomorphic in every structural sense (and both count correctly).
"""
import itertools
import logging
import sys

import logzero

logzero.loglevel(logging.ERROR)

from comb_spec_searcher import (  # noqa: E402
    AtomStrategy,
    CartesianProductStrategy,
    CombinatorialClass,
    CombinatorialObject,
    CombinatorialSpecificationSearcher,
    DisjointUnionStrategy,
    StrategyPack,
)
from comb_spec_searcher.bijection import EqPathParallelSpecFinder, ParallelSpecFinder  # noqa: E402
from comb_spec_searcher.isomorphism import Bijection, Isomorphism  # noqa: E402

# class key "p/t": words with prefix p, copy t;  "=w/t": the single word w, copy t;  "E" = unary two-way rule
TABLE = {
    "1": {
        "/0": [["U", ["=/0", "a/0", "b/0"]]],
        "/1": [["E", ["/2"]]],
        "/2": [["E", ["/0"]]],
        "a/0": [["P", ["=a/0", "/1"]]], "b/0": [["P", ["=b/0", "/2"]]],
    },
    "2": {
        "/0": [["U", ["=/0", "a/0", "b/0"]]],
        "a/0": [["P", ["=a/0", "/0"]]], "b/0": [["P", ["=b/0", "/0"]]],
    },
}


class Wd(str, CombinatorialObject):
    def size(self):
        return str.__len__(self)


class C(CombinatorialClass):
    def __init__(self, side, key):
        self.side, self.key = side, key
        body, t = key.rsplit("/", 1)
        self.atom = body.startswith("=")
        self.pre = body[1:] if self.atom else body
        self.tag = int(t)

    def is_empty(self):
        return False

    def is_atom(self):
        return self.atom

    def minimum_size_of_object(self):
        return len(self.pre)

    def objects_of_size(self, n):
        if self.atom:
            if n == len(self.pre):
                yield Wd(self.pre)
        elif n >= len(self.pre):
            for w in itertools.product("ab", repeat=n - len(self.pre)):
                yield Wd(self.pre + "".join(w))

    def to_jsonable(self):
        return {"side": self.side, "key": self.key}

    @classmethod
    def from_dict(cls, d):
        return cls(d["side"], d["key"])

    def __eq__(self, o):
        return isinstance(o, C) and (self.side, self.key) == (o.side, o.key)

    def __hash__(self):
        return hash((self.side, self.key))

    def __repr__(self):
        return "C(%r, %r)" % (self.side, self.key)

    def __str__(self):
        what = "the word %r" % self.pre if self.atom else "words starting with %r" % self.pre
        return "%s (copy %d)" % (what, self.tag)


class _Table:
    def __init__(self, i):
        super().__init__()
        self.i = i

    def decomposition_function(self, c):
        rs = [r for r in TABLE[c.side].get(c.key, []) if r[0] == self.KIND]
        return tuple(C(c.side, k) for k in rs[self.i][1]) if self.i < len(rs) else None

    def formal_step(self):
        return "%s rule %d of the table" % (self.KIND, self.i)

    @classmethod
    def from_dict(cls, d):
        return cls(d["i"])

    def __repr__(self):
        return "%s(%d)" % (type(self).__name__, self.i)

    def __str__(self):
        return self.formal_step()


class Split(_Table, DisjointUnionStrategy):
    KIND = "U"

    def forward_map(self, c, obj, children=None):
        children = children or self.decomposition_function(c)
        return tuple(obj if obj in set(ch.objects_of_size(len(obj))) else None for ch in children)


class Copy(_Table, DisjointUnionStrategy):
    KIND = "E"

    def forward_map(self, c, obj, children=None):
        return (obj,)


class Peel(_Table, CartesianProductStrategy):
    KIND = "P"

    def forward_map(self, c, obj, children=None):
        children = children or self.decomposition_function(c)
        return (Wd(obj[: len(children[0].pre)]), Wd(obj[len(children[0].pre):]))

    def backward_map(self, c, objs, children=None):
        yield Wd("".join(objs))


def searcher(side):
    pack = StrategyPack([Peel(0), Copy(0)], [], [[Split(0)]], [AtomStrategy()], name="table " + side)
    return CombinatorialSpecificationSearcher(C(side, "/0"), pack)


def check_table():
    """every rule of the table is a true decomposition of its class (sizes 0..5)"""
    for side, t in TABLE.items():
        for key, rs in t.items():
            c = C(side, key)
            for kind, kids in rs:
                ks = [C(side, k) for k in kids]
                for n in range(6):
                    truth = sorted(c.objects_of_size(n))
                    if kind in ("U", "E"):
                        got = sorted(w for k in ks for w in k.objects_of_size(n))
                    else:
                        got = sorted(
                            "".join(p)
                            for sizes in itertools.product(range(n + 1), repeat=len(ks))
                            if sum(sizes) == n
                            for p in itertools.product(*[list(k.objects_of_size(s)) for k, s in zip(ks, sizes)])
                        )
                    assert got == truth, (side, key, kind, kids, n)


def main():
    check_table()
    defect = []
    for cls in (ParallelSpecFinder, EqPathParallelSpecFinder):
        specs = cls(searcher("1"), searcher("2")).find()
        if specs is None:
            print(cls.__name__ + ".find() returned None")
            continue
        s1, s2 = specs
        for s in specs:
            counts = [s.count_objects_of_size(n) for n in range(8)]
            assert counts == [2 ** n for n in range(8)], counts
        if cls is ParallelSpecFinder:
            print(s1)
            print(s2)
        i12, i21 = Isomorphism.check(s1, s2), Isomorphism.check(s2, s1)
        bij = Bijection.construct(s1, s2)
        print(cls.__name__ + ": both specifications count 1, 2, 4, 8, ... correctly")
        print("  Isomorphism.check(spec1, spec2) =", i12, "  Isomorphism.check(spec2, spec1) =", i21)
        print("  Bijection.construct(spec1, spec2) =", bij)
        if not i12 or not i21 or bij is None:
            defect.append(cls.__name__ + ".find() returned a pair that Isomorphism.check rejects")
    if defect:
        print("DEFECT REPRODUCED: " + "; ".join(defect))
        return 0
    print("defect not observed")
    return 1


if __name__ == "__main__":
    sys.exit(main())
