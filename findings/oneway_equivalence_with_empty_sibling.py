"""
C02 finding (open): get_specification() dies with an AssertionError in the constructor of
CombinatorialSpecification for a rule set SpecificationRuleExtractor itself handed out.

A strategy that is NOT two-way (is_two_way False: RuleDBBase.add files its unary keys in
rule_to_strategy, not in eqv_rule_to_strategy) but can be an equivalence
(can_be_equivalent True, the default of DisjointUnionStrategy) and possibly_empty yields a
rule with one non-empty child and empty siblings.  RuleDBBase._clean_labels drops the empty
siblings, the key (parent, (child,)) ends in rule_to_strategy, and
SpecificationRuleExtractor._find_rule hands back strategy(parent_class) AS IT IS: a Rule with
several children whose is_equivalence() is True.  _group_equiv_in_path then puts it on a path:
EquivalencePathRule.__init__ asserts `all(len(rule.children) == 1 ...)` (or, depending on the
position of the empty child, `path_rules[-1].children[0] == rule.comb_class`, or
`assert self._is_valid_spec()` fires).  The two-way branch of _find_rule converts such rules
with to_equivalence_rule(); the rule_to_strategy branch does not.  RuleDBForest (whose extractor
converts) returns the specification.

Run:  PYTHONPATH=/repo /venv/bin/python findings/oneway_equivalence_with_empty_sibling.py
Exit code 0 = the defect is present (AssertionError with RuleDB, specification with RuleDBForest).
"""
import logging
import sys

import logzero

from comb_spec_searcher import AtomStrategy, CombinatorialSpecificationSearcher, StrategyPack
from comb_spec_searcher.rule_db import RuleDB, RuleDBForest
from example import AvoidingWithPrefix, ExpansionStrategy, RemoveFrontOfPrefix

logzero.loglevel(logging.ERROR)


class OneWayExpansion(ExpansionStrategy):
    """the repository's own expansion strategy, declared one-way (e.g. to keep reverse rules out)"""

    def is_two_way(self, comb_class):
        return False

    def is_reversible(self, comb_class):
        return False


def pack():
    return StrategyPack(
        initial_strats=[RemoveFrontOfPrefix()],
        inferral_strats=[],
        expansion_strats=[[OneWayExpansion()]],
        ver_strats=[AtomStrategy()],
        name="one-way expansion",
    )


def main():
    # words over {a, b} avoiding aa, ab and b: expanding "a.." gives (just a, aa.., ab..) and both aa..
    # and ab.. are empty: one non-empty child, two empty siblings
    start = AvoidingWithPrefix("", ["aa", "ab", "b"], ["a", "b"])
    results = {}
    for name, mk in (("RuleDB", RuleDB), ("RuleDBForest", lambda: RuleDBForest(reverse=False))):
        css = CombinatorialSpecificationSearcher(start, pack(), ruledb=mk())
        try:
            spec = css.auto_search()
            results[name] = "specification with %d rules, counts %s" % (
                len(spec.rules_dict), [spec.count_objects_of_size(n) for n in range(6)])
        except AssertionError as e:
            import traceback

            tb = traceback.extract_tb(e.__traceback__)[-1]
            results[name] = "AssertionError in %s: %s" % (tb.name, tb.line)
    for k, v in results.items():
        print("%-13s %s" % (k, v))
    bad = results["RuleDB"].startswith("AssertionError") and results["RuleDBForest"].startswith("specification")
    print("DEFECT PRESENT" if bad else "defect not reproduced")
    return 0 if bad else 1


if __name__ == "__main__":
    sys.exit(main())
