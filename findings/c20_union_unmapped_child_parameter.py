"""C20, finding (repaired by fix FIXHASH_EQ; exit 0 on a tree with the fix) union-equation-unmapped-child-parameter (and its EquivalencePathRule variant).

PYTHONPATH=/repo /venv/bin/python findings/c20_union_unmapped_child_parameter.py   (exit 1 = defect present)

A union rule whose child tracks a statistic that no parent statistic is mapped to: get_terms sums the
statistic out (the rule counts correctly), get_equation leaves the child's own variable in the equation.
Same through EquivalencePathRule, whose constructor passes fixed_values = {e: 0} that get_equation never
reads.  Standalone: own classes, no harness import."""
import sys
from collections import Counter

import sympy

from comb_spec_searcher import CombinatorialClass, DisjointUnionStrategy
from comb_spec_searcher.strategies.rule import EquivalencePathRule


class W(CombinatorialClass):
    """words over {a,b} without 'aa' and 'bb' (two per size), tracking the statistics named in `stats`"""

    def __init__(self, stats):
        self.stats = tuple(stats)            # ((name, letter), ...)

    @property
    def extra_parameters(self):
        return tuple(n for n, _ in self.stats)

    def get_parameters(self, obj):
        return tuple(obj.count(l) for _, l in self.stats)

    def possible_parameters(self, n):
        import itertools

        for vals in itertools.product(range(n + 1), repeat=len(self.stats)):
            yield dict(zip(self.extra_parameters, vals))

    def get_minimum_value(self, parameter):
        return 0

    def objects_of_size(self, n, **parameters):
        for first in "ab":
            w = "".join((first if i % 2 == 0 else ("b" if first == "a" else "a")) for i in range(n))
            if n == 0 and first == "b":
                continue
            yield w

    def is_empty(self):
        return False

    def to_jsonable(self):
        return {"stats": [list(s) for s in self.stats]}

    @classmethod
    def from_dict(cls, d):
        return cls(d["stats"])

    def __eq__(self, o):
        return isinstance(o, W) and self.stats == o.stats

    def __hash__(self):
        return hash(self.stats)

    def __repr__(self):
        return "W(%r)" % (self.stats,)

    __str__ = __repr__


class AddStatistic(DisjointUnionStrategy):
    """the same words, additionally tracking e = number of b's: extra_parameters = ({k: k},)"""

    def __init__(self):
        super().__init__(ignore_parent=False, inferrable=True, possibly_empty=False, workable=True)

    def decomposition_function(self, c):
        return (W(c.stats + (("e", "b"),)),)

    def extra_parameters(self, c, children=None):
        return ({n: n for n in c.extra_parameters},)

    def formal_step(self):
        return "track e too"

    def forward_map(self, c, obj, children=None):
        return (obj,)

    @classmethod
    def from_dict(cls, d):
        return cls()


def series(cls, args, order):
    out = 0
    for n in range(order + 1):
        for w in cls.objects_of_size(n):
            t = args[0] ** n
            for a, v in zip(args[1:], cls.get_parameters(w)):
                t *= a ** v
            out += t
    return out


def holds(eq, classes, order=6):
    from sympy.core.function import AppliedUndef

    x = sympy.var("x")
    m = {f: series(classes[int(f.func.__name__[2:])], f.args, order) for f in eq.atoms(AppliedUndef)}
    d = sympy.expand(eq.lhs.xreplace(m) - eq.rhs.xreplace(m))
    return all(sympy.degree(t, x) > order for t in sympy.Add.make_args(d) if t != 0) or d == 0


parent = W((("k", "a"),))
rule = AddStatistic()(parent)
child = rule.children[0]
classes = {0: parent, 1: child}
label = {parent: 0, child: 1}.__getitem__
bad = 0
# 1. the rule is genuine: the library's own get_terms reproduces the parent's true terms from the child's
for n in range(6):
    got = rule.constructor.get_terms(parent.get_terms, (child.get_terms,), n)
    assert Counter(got) == Counter(parent.get_terms(n)), (n, got)
print("rule is genuine (get_terms sums e out) up to size 5")
for name, r in (("union rule", rule), ("equivalence path", EquivalencePathRule([rule.to_equivalence_rule()]))):
    eq = r.get_equation(lambda c: c.get_function(label))
    ok = holds(eq, classes)
    fixed = eq.subs(sympy.var("e"), 1)
    print("%-17s emits %s   satisfied by the true series: %s   with e := 1: %s" % (name, eq, ok, holds(fixed, classes)))
    if name == "equivalence path":
        print("                  fixed_values of its constructor:", r.constructor.fixed_values)
    bad |= not ok
sys.exit(1 if bad else 0)
