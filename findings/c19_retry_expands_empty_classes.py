"""
C19 finding: expand_verified can return a specification with a FALSE rule (which then cannot
count, or counts wrongly) when it has to retry with reverse rules.

CombinatorialSpecification.expand_comb_class seeds the forest database with the other rules of
the specification and only THEN replaces the searcher's queue:

    for rule in spec_rules: ... ruledb.add(start_label, end_labels, rule)   # marks the empty children
    ruledb.reverse = reverse                                                 # "stop yielding" in the
    css.classqueue = DefaultQueue(css.strategy_pack)                         # queue thrown away here

RuleDBForest.add -> _add_empty_rule gives every empty child of a seeded rule its empty rule and tells
the queue never to yield it; it remembers the label in _already_empty and never does so again.  The
new queue knows nothing of it.  When the class reappears as a child of a rule made by the pack it is
queued.  In the reverse-free attempt it is skipped because it "is verified"; in the RETRY
(reverse=True, continue_expanding_verified=True: `if self.expand_verified or not is_verified`) the
pack's strategies are applied to the EMPTY class — strategies are only meant for non-empty classes —
and the reverse of such a rule is false.  Here: RemoveFrontOfPrefix on the empty class "prefix aa"
gives  aa.. = a x a.. ; its reverse "a.. = (aa..) / a", seen as an equivalence because aa.. is empty,
says  words with prefix a  =  the word a.

Whether the search expands far enough to meet the empty class before it stops depends on how long
has_specification() takes (expansion slices are 100 x that time): it happened under load in the
harness.  The script makes it deterministic by letting has_specification take 1 ms longer.

Run:  PYTHONPATH=/repo /venv/bin/python findings/c19_retry_expands_empty_classes.py
Exit code 1 = defect present, 0 = not present (e.g. with findings/c19_queue_before_seeding.diff).
"""
import logging
import sys
import time
from collections import Counter

import logzero

import comb_spec_searcher  # noqa: F401
from comb_spec_searcher import AtomStrategy, CombinatorialSpecificationSearcher, StrategyPack
from comb_spec_searcher.strategies.strategy import SymmetryStrategy, VerificationStrategy
from example import AvoidingWithPrefix, ExpansionStrategy, RemoveFrontOfPrefix, Word

logzero.loglevel(logging.ERROR)


class SwapLetters(SymmetryStrategy):
    """exchange a and b everywhere (a symmetry of the words avoiding aa, bb, cc)"""

    @staticmethod
    def _swap(w):
        return "".join({"a": "b", "b": "a"}.get(x, x) for x in w)

    def decomposition_function(self, c):
        return (AvoidingWithPrefix(self._swap(c.prefix), [self._swap(p) for p in c.patterns], c.alphabet, c.just_prefix),)

    def formal_step(self):
        return "swap a and b"

    def forward_map(self, comb_class, obj, children=None):
        return (Word(self._swap(obj)),)

    def backward_map(self, comb_class, objs, children=None):
        yield Word(self._swap(objs[0]))

    @classmethod
    def from_dict(cls, d):
        return cls()

    def __repr__(self):
        return "SwapLetters()"

    def __str__(self):
        return self.formal_step()


def base():
    return StrategyPack([RemoveFrontOfPrefix()], [], [[ExpansionStrategy()]], [AtomStrategy()], name="base")


def with_symmetry():
    return StrategyPack([RemoveFrontOfPrefix()], [], [[ExpansionStrategy()]], [AtomStrategy()], name="sym",
                        symmetries=[SwapLetters()])


class PrefixC(VerificationStrategy):
    """verifies the words with prefix c (counted by brute force); to expand them use the pack with the symmetry"""

    def verified(self, c):
        return (not c.just_prefix) and c.prefix == "c"

    def pack(self, comb_class):
        return with_symmetry()

    def get_terms(self, c, n):
        k = sum(1 for _ in c.objects_of_size(n))
        return Counter({(): k}) if k else Counter()

    def formal_step(self):
        return "prefix c"

    @classmethod
    def from_dict(cls, d):
        return cls()


# a machine on which has_specification() takes a millisecond
orig_has = CombinatorialSpecificationSearcher.has_specification


def slow_has_specification(self):
    time.sleep(0.001)
    return orig_has(self)


start = AvoidingWithPrefix("", ["aa", "bb", "cc"], ["a", "b", "c"])
spec = CombinatorialSpecificationSearcher(start, base().add_verification(PrefixC())).auto_search()
truth = [sum(1 for _ in start.objects_of_size(n)) for n in range(8)]
# (the original is deliberately NOT used for counting before: the copies made by expand_comb_class share
#  their caches with the original's rules — findings/c19_shared_caches.py — and would answer from them)

CombinatorialSpecificationSearcher.has_specification = slow_has_specification
try:
    new_spec = spec.expand_verified()
finally:
    CombinatorialSpecificationSearcher.has_specification = orig_has

bad = False
for rule in new_spec:
    kids = [k for k in rule.children if not k.is_empty()]
    if len(kids) == 1 and kids[0].just_prefix and not rule.comb_class.just_prefix:
        print("FALSE RULE in the expanded specification:  %s  =  %s   [%s]" % (rule.comb_class, kids[0], rule.formal_step))
        bad = True
try:
    got = [new_spec.count_objects_of_size(n) for n in range(8)]
    print("expanded specification counts", got, "truth", truth)
    bad = bad or got != truth
except NotImplementedError:
    print("expanded specification cannot count: NotImplementedError; brute force gives", truth)
    bad = True
print("DEFECT PRESENT" if bad else "not present")
sys.exit(1 if bad else 0)
