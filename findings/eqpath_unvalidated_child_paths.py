"""
F-C13e  --  EqPathParallelSpecFinder returns two specifications that are NOT isomorphic: the equivalence
paths of the children of a pair of labels that both already had their rules are never compared.

Run:  PYTHONPATH=/repo /venv/bin/python eqpath_unvalidated_child_paths.py      (exit code 0 = reproduced)

Universe: all words over {a,b} with a given prefix; every class exists in several COPIES (same words,
different classes; "p:q/t" = words with prefix p, copy q.t; "=w/0" = the single word w).  Rules (true
statements, checked below by brute force): U split by the first letter, P prefix atom x rest, E a two-way
unary rule to another copy that is an equivalence rule, N a two-way unary rule to another copy whose
strategy says can_be_equivalent() False: the rule database joins the two copies into one equivalence
class, but the rule is NOT an equivalence rule -- the situation EqPathParallelSpecFinder exists for: it
must only match two labels when the non-equivalence rules on the way into them agree.

What happens (labels = equivalence classes of the two rule databases): in
_search_matching_info_recursion_base_cases_eq a pair (id1, id2) is met when BOTH labels already have their
rules (chosen earlier against other partners).  The code compares the equivalence paths of the pair itself
under its current parents, runs _validate_atoms_for_existing_entries (atoms only) and answers VALID without
descending.  The equivalence paths of the CHILDREN of (id1, id2) -- entered from id1 on one side and from
id2 on the other, a combination that was never looked at -- are not compared: on side 1 the child is
entered through the copy that needs the N rule, on side 2 directly.  _maps_are_matched (97589e3) checks the
matching of the rules only.  find() returns two specifications, both counting correctly, that are not
isomorphic: Isomorphism.check False both ways, Bijection.construct None.
Proposed repair: eqpath_unvalidated_child_paths.diff (EqPathParallelSpecFinder._maps_are_matched also
compares the equivalence paths along every parent-pair -> child-pair edge of the final maps).
"""
import logging
import sys

import logzero

logzero.loglevel(logging.ERROR)

import itertools  # noqa: E402

from comb_spec_searcher import (AtomStrategy, CartesianProductStrategy, CombinatorialClass, CombinatorialObject,
    CombinatorialSpecificationSearcher, DisjointUnionStrategy, StrategyPack)
class Wd(str, CombinatorialObject):
    def size(self): return str.__len__(self)
def accepts(q, w):
    for x in w:
        if q is None: return False
        q = DFA["delta"][q]["ab".index(x)]
    return q is not None and bool(DFA["final"][q])
class C(CombinatorialClass):
    def __init__(self, side, key):
        self.side, self.key = side, key
        body, t = key.rsplit("/", 1)
        self.tag = int(t); self.atom = body.startswith("=")
        if self.atom: self.pre, self.q = body[1:], None
        else:
            p, q = body.split(":"); self.pre, self.q = p, int(q)
    def is_empty(self): return False
    def is_atom(self): return self.atom
    def minimum_size_of_object(self):
        n = len(self.pre)
        while not list(self.objects_of_size(n)): n += 1
        return n
    def objects_of_size(self, n):
        if self.atom:
            if n == len(self.pre): yield Wd(self.pre)
        elif n >= len(self.pre):
            for w in itertools.product("ab", repeat=n - len(self.pre)):
                w = "".join(w)
                if accepts(self.q, w): yield Wd(self.pre + w)
    def to_jsonable(self): return {"side": self.side, "key": self.key}
    @classmethod
    def from_dict(cls, d): return cls(d["side"], d["key"])
    def __eq__(self, o): return isinstance(o, C) and (self.side, self.key) == (o.side, o.key)
    def __hash__(self): return hash((self.side, self.key))
    def __repr__(self): return "C(%r,%r)" % (self.side, self.key)
    def __str__(self): return self.key
class _T:
    def __init__(self, i):
        super().__init__(); self.i = i
    def decomposition_function(self, c):
        rs = [r for r in TABLE[c.side].get(c.key, []) if r[0] == self.KIND]
        return tuple(C(c.side, k) for k in rs[self.i][1]) if self.i < len(rs) else None
    def formal_step(self): return "%s rule %d" % (self.KIND, self.i)
    @classmethod
    def from_dict(cls, d): return cls(d["i"])
    def __repr__(self): return "%s(%d)" % (type(self).__name__, self.i)
    def __str__(self): return self.formal_step()
class U(_T, DisjointUnionStrategy):
    KIND = "U"
    def forward_map(self, c, obj, children=None):
        children = children or self.decomposition_function(c)
        return tuple(obj if obj in set(ch.objects_of_size(len(obj))) else None for ch in children)
class E(_T, DisjointUnionStrategy):
    KIND = "E"
    def forward_map(self, c, obj, children=None): return (obj,)
class N(_T, DisjointUnionStrategy):
    KIND = "N"
    def can_be_equivalent(self): return False
    def forward_map(self, c, obj, children=None): return (obj,)
class P(_T, CartesianProductStrategy):
    KIND = "P"
    def forward_map(self, c, obj, children=None):
        children = children or self.decomposition_function(c)
        out, pos = [], 0
        for ch in children:
            if ch.atom: out.append(Wd(obj[pos:pos+len(ch.pre)])); pos += len(ch.pre)
            else: out.append(None)
        rest = obj[pos:]
        return tuple(Wd(rest) if o is None else o for o in out)
    def backward_map(self, c, objs, children=None):
        children = children or self.decomposition_function(c)
        atoms = "".join(o for o, ch in zip(objs, children) if ch.atom)
        rest = "".join(o for o, ch in zip(objs, children) if not ch.atom)
        yield Wd(atoms + rest)
def searcher(side, start):
    pack = StrategyPack([P(0), P(1), E(0), E(1), N(0), N(1)], [], [[U(0), U(1), U(2)]], [AtomStrategy()], name="table")
    return CombinatorialSpecificationSearcher(C(side, start), pack)

# every state of this automaton accepts every word: the state is just part of the copy's name
DFA = {"delta": [[2, 2], [0, 2], [0, 1]], "final": [1, 1, 1]}
TABLE = {
    "1": {
        ":0/0": [["U", ["=/0", "a:2/0", "b:2/0"]]],
        ":2/0": [["U", ["=/0", "a:0/1", "b:1/1"]]],
        ":1/0": [["U", ["=/0", "a:0/1", "b:2/0"]]],
        ":2/1": [["N", [":2/0"]], ["U", ["=/0", "a:0/0", "b:1/1"]]],
        "b:1/1": [["P", [":1/0", "=b/0"]]], "b:2/0": [["P", [":2/1", "=b/0"]]],
        "a:0/1": [["P", [":0/0", "=a/0"]]], "a:2/0": [["P", [":2/1", "=a/0"]]],
    },
    "2": {
        ":0/0": [["E", [":0/1"]]],
        ":0/1": [["U", ["=/0", "a:2/0", "b:2/1"]]],
        ":2/0": [["U", ["=/0", "a:0/1", "b:1/0"]]],
        ":1/1": [["U", ["=/0", "a:0/1", "b:2/0"]]],
        ":2/1": [["N", [":2/0"]]],
        "b:2/0": [["P", ["=b/0", ":2/1"]]], "b:2/1": [["P", ["=b/0", ":2/0"]]],
        "b:1/0": [["P", ["=b/0", ":1/1"]]], "a:0/1": [["P", ["=a/0", ":0/0"]]],
        "a:2/0": [["P", ["=a/0", ":2/1"]]],
    },
}


def check_table():
    """every rule of the table is a true decomposition of its class (sizes 0..5)"""
    for side, t in TABLE.items():
        for key, rs in t.items():
            c = C(side, key)
            for kind, kids in rs:
                ks = [C(side, k) for k in kids]
                for n in range(6):
                    truth = sorted(c.objects_of_size(n))
                    if kind != "P":
                        got = sorted(w for k in ks for w in k.objects_of_size(n))
                    else:
                        atoms = "".join(k.pre for k in ks if k.atom)
                        rest = [k for k in ks if not k.atom][0]
                        got = sorted(atoms + w for w in rest.objects_of_size(n - len(atoms))) if n >= len(atoms) else []
                    assert got == truth, (side, key, kind, kids, n)


def main():
    from comb_spec_searcher.bijection import EqPathParallelSpecFinder
    from comb_spec_searcher.isomorphism import Bijection, Isomorphism

    check_table()
    specs = EqPathParallelSpecFinder(searcher("1", ":0/0"), searcher("2", ":0/0")).find()
    if specs is None:
        print("EqPathParallelSpecFinder.find() returned None")
        print("defect not observed")
        return 1
    s1, s2 = specs
    for s in specs:
        counts = [s.count_objects_of_size(n) for n in range(8)]
        assert counts == [2 ** n for n in range(8)], counts
    print(s1)
    print(s2)
    i12, i21 = Isomorphism.check(s1, s2), Isomorphism.check(s2, s1)
    bij = Bijection.construct(s1, s2)
    print("both specifications count 1, 2, 4, 8, ... correctly")
    print("Isomorphism.check(spec1, spec2) =", i12, "  Isomorphism.check(spec2, spec1) =", i21)
    print("Bijection.construct(spec1, spec2) =", bij)
    if not i12 or not i21 or bij is None:
        print("DEFECT REPRODUCED: EqPathParallelSpecFinder.find() returned two specifications that are not isomorphic")
        return 0
    print("defect not observed")
    return 1


if __name__ == "__main__":
    sys.exit(main())
