"""C20, finding (repaired by fix FIXHASH_GENF; exit 0 on a tree with the fix) genf-selection-depends-on-solver-order.

PYTHONPATH=/repo /venv/bin/python findings/c20_genf_wrong_branch.py   (exit 1 = defect present)

get_genf picks the first solution of sympy.solve whose first check+1 Taylor coefficients OF THE ROOT equal
the counts.  For binary trees counted by leaves, planted on 7 extra leaves (root = leaf^7 x T, T = leaf + T x T)
both branches  x^7 (1 -+ sqrt(1-4x))/2  have the coefficients 0,0,0,0,0,0,0: which one is returned depends on
the order in which the solver lists them.  Only the class T (minimum size 1: T(0) = 0) tells them apart.
Standalone: own classes, no harness import."""
import sys

import sympy

from comb_spec_searcher import (
    AtomStrategy,
    CartesianProductStrategy,
    CombinatorialClass,
    CombinatorialObject,
    CombinatorialSpecificationSearcher,
    DisjointUnionStrategy,
    StrategyPack,
)
from comb_spec_searcher import specification as specmod


class TW(str, CombinatorialObject):
    def size(self):
        return self.count("l")


def trees(n, memo={}):
    if n not in memo:
        memo[n] = (["l"] if n == 1 else []) + ["2" + a + b for i in range(1, n) for a in trees(i) for b in trees(n - i)]
    return memo[n]


class T(CombinatorialClass):
    def __init__(self, kind):
        self.kind = kind                      # 'tree' | 'leaf' | 'node' | ('planted', j)

    def is_atom(self):
        return self.kind == "leaf"

    def is_empty(self):
        return False

    def minimum_size_of_object(self):
        return {"tree": 1, "leaf": 1, "node": 2}.get(self.kind) or self.kind[1] + 1

    def objects_of_size(self, n, **parameters):
        if self.kind == "leaf":
            yield from ([TW("l")] if n == 1 else [])
        elif self.kind == "tree":
            yield from map(TW, trees(n))
        elif self.kind == "node":
            yield from (TW(w) for w in trees(n) if w[0] == "2")
        else:
            yield from (TW("l" * self.kind[1] + w) for w in trees(n - self.kind[1]))

    def to_jsonable(self):
        return {"kind": self.kind}

    @classmethod
    def from_dict(cls, d):
        return cls(d["kind"])

    def __eq__(self, o):
        return isinstance(o, T) and self.kind == o.kind

    def __hash__(self):
        return hash(self.kind)

    def __repr__(self):
        return "T(%r)" % (self.kind,)

    __str__ = __repr__


class Union(DisjointUnionStrategy):
    def __init__(self):
        super().__init__(ignore_parent=True, inferrable=False, possibly_empty=False, workable=True)

    def decomposition_function(self, c):
        return (T("leaf"), T("node")) if c.kind == "tree" else None

    def formal_step(self):
        return "leaf or node"

    def forward_map(self, c, obj, children=None):
        return (obj, None) if obj == "l" else (None, obj)

    @classmethod
    def from_dict(cls, d):
        return cls()


class Product(CartesianProductStrategy):
    def decomposition_function(self, c):
        if c.kind == "node":
            return (T("tree"), T("tree"))
        if isinstance(c.kind, tuple):
            return (T("leaf"),) * c.kind[1] + (T("tree"),)
        return None

    def formal_step(self):
        return "subtrees"

    def backward_map(self, c, objs, children=None):
        yield TW(("2" if c.kind == "node" else "") + "".join(objs))

    def forward_map(self, c, obj, children=None):
        raise NotImplementedError

    @classmethod
    def from_dict(cls, d):
        return cls()


pack = StrategyPack(initial_strats=[], inferral_strats=[], expansion_strats=[[Union(), Product()]],
                    ver_strats=[AtomStrategy()], name="trees")
root = T(("planted", 7))
spec = CombinatorialSpecificationSearcher(root, pack).auto_search()
x = sympy.var("x")
orig = specmod.solve
bad = 0
for name, order in (("as sympy lists them", lambda l: l), ("reversed", lambda l: list(reversed(l)))):
    specmod.solve = lambda *a, _o=order, **k: _o(orig(*a, **k))
    try:
        g = spec.get_genf()
    finally:
        specmod.solve = orig
    co = sympy.Poly(sympy.series(g, x, 0, 12).removeO(), x).all_coeffs()[::-1]
    true = [sum(1 for _ in root.objects_of_size(n)) for n in range(12)]
    co = [int(c) for c in co] + [0] * (12 - len(co))
    print("solutions %-20s get_genf() = %-32s coefficients %s   counts %s" % (name, g, co[:11], true[:11]))
    bad |= co != true
sys.exit(1 if bad else 0)
