"""
F-C13b  --  ParallelSpecFinder / EqPathParallelSpecFinder raise AssertionError when a start class is empty.

Run:  PYTHONPATH=/repo /venv/bin/python empty_start_class.py     (exit code 0 = defect reproduced)

Words over {a,b} avoiding aa with prefix aa: an empty class.  A plain search handles it
(auto_search returns the specification "0 -> () is empty", fix ee8c94e); the parallel finder dies in
ParallelInfo._construct_eq_label_rules at `assert not parent.is_empty()` -- for this class paired with
itself, with another empty class, or with a non-empty class, in either position, both variants.
"""
import logging
import sys

import logzero

logzero.loglevel(logging.ERROR)

from comb_spec_searcher import CombinatorialSpecificationSearcher  # noqa: E402
from comb_spec_searcher.bijection import EqPathParallelSpecFinder, ParallelSpecFinder  # noqa: E402
from example import AvoidingWithPrefix, pack  # noqa: E402


def main():
    empty = lambda: AvoidingWithPrefix("aa", ["aa"], ["a", "b"])  # noqa: E731
    other = lambda: AvoidingWithPrefix("", ["bb"], ["a", "b"])  # noqa: E731
    assert empty().is_empty()
    spec = CombinatorialSpecificationSearcher(empty(), pack).auto_search()
    assert [spec.count_objects_of_size(n) for n in range(6)] == [0] * 6
    print("plain search of the empty class: a specification with %d rule(s), counts 0,0,0,..." % spec.number_of_rules())
    seen = False
    for cls in (ParallelSpecFinder, EqPathParallelSpecFinder):
        for a, b in ((empty, empty), (empty, other), (other, empty)):
            try:
                r = cls(CombinatorialSpecificationSearcher(a(), pack), CombinatorialSpecificationSearcher(b(), pack)).find()
                print("%s(%s | %s).find() returned %s" % (cls.__name__, a(), b(), "None" if r is None else "two specifications"))
            except AssertionError:
                import traceback

                line = traceback.format_exc().strip().split("\n")[-2].strip()
                print("%s(%s | %s): AssertionError at `%s`" % (cls.__name__, a(), b(), line))
                seen = True
    if seen:
        print("DEFECT REPRODUCED")
        return 0
    print("defect not observed")
    return 1


if __name__ == "__main__":
    sys.exit(main())
