"""
F-C12e  --  Isomorphism.check is not symmetric on specifications with chained (uncollapsed)
equivalence rules: check(spec1, spec2) is True while check(spec2, spec1) is False.

Run:  PYTHONPATH=/repo /venv/bin/python C12_asymmetric_check.py      (exit code 0 = reproduced)

Both specifications describe three copies of the words a^k b (classes = nonterminals of a tiny
grammar, objects = derivation trees, so unions are disjoint and products decompose uniquely).

  spec1:  R  = m + (c + m)          m = c,  c = d,  d = e,  e = E      (four equivalence steps)
          E  = b + a x c            (x refers back to the SECOND class of the chain)
  spec2:  R' = (m' + g) + m'        m' = g, g = h,  h = k,  k = E'
          E' = b + a x m'           (x refers back to the FIRST class of the chain)

_are_isomorphic skips ONE equivalence step on each side and registers product(eq_path1, eq_path2)
in _ancestors.  spec1 -> spec2: (m, m') is examined first; inside it the pair (c, m') is accepted
by the "recursive match" test because (c, m') is in the product of the two paths of the pair in
progress — although on its own (c, m') fails two steps further down (3 steps below c, 4 below m').
Later (c, m') is tried on its own as a candidate, fails, an alternative is found: True.
spec2 -> spec1: the children are tried in the other order, (m', c) is examined on its own FIRST,
fails, is remembered in _failed, and is therefore rejected inside (m', m) as well: False.

The second pair below shows the same with the DEFAULT group_equiv=True (the classes in the
middle of the chains are also children of another rule, so the chains cannot be collapsed).

Proposed repair (C12_asymmetric_check.diff): register and look up only the pair of current
classes (curr1, curr2) in _ancestors — the key already used by _order_map and _failed — so that
the answer for a pair does not depend on where it is met.  On specifications without chained
equivalence rules nothing changes.
"""
import json
import logging
import sys

import logzero

logzero.loglevel(logging.ERROR)

from comb_spec_searcher import (  # noqa: E402
    AtomStrategy,
    CartesianProductStrategy,
    CombinatorialClass,
    CombinatorialObject,
    CombinatorialSpecification,
    DisjointUnionStrategy,
)
from comb_spec_searcher.isomorphism import Bijection, Isomorphism  # noqa: E402


class Tree(tuple, CombinatorialObject):
    """derivation tree: ("a", nt, word) | ("u", nt, idx, sub) | ("p", nt, sub1, ..)"""

    def size(self):
        if self[0] == "a":
            return len(self[2])
        if self[0] == "u":
            return self[3].size()
        return sum(x.size() for x in self[2:])

    def __len__(self):
        return self.size()


class NT(CombinatorialClass):
    """nonterminal nt of the grammar prods: ["a", word] | ["u", [nts]] | ["p", [nts]]"""

    def __init__(self, prods, nt):
        self.key = json.dumps(prods)
        self.prods = json.loads(self.key)
        self.nt = nt

    def kids(self):
        return tuple(NT(self.prods, i) for i in self.prods[self.nt][1])

    def is_empty(self):
        return False

    def is_atom(self):
        return self.prods[self.nt][0] == "a"

    def minimum_size_of_object(self):
        return 1

    def objects_of_size(self, n, **_):
        p = self.prods[self.nt]
        if n <= 0:
            return
        if p[0] == "a":
            if len(p[1]) == n:
                yield Tree(("a", self.nt, p[1]))
        elif p[0] == "u":
            for i, k in enumerate(self.kids()):
                for o in k.objects_of_size(n):
                    yield Tree(("u", self.nt, i, o))
        else:  # products of two factors, the first an atom of size 1
            a, rest = self.kids()
            for x in a.objects_of_size(1):
                for y in rest.objects_of_size(n - 1):
                    yield Tree(("p", self.nt, x, y))

    def to_jsonable(self):
        d = super().to_jsonable()
        d["prods"], d["nt"] = self.prods, self.nt
        return d

    @classmethod
    def from_dict(cls, d):
        return cls(d["prods"], d["nt"])

    def __eq__(self, other):
        return isinstance(other, NT) and self.key == other.key and self.nt == other.nt

    def __hash__(self):
        return hash((self.key, self.nt))

    def __repr__(self):
        return "NT(%d)" % self.nt

    def __str__(self):
        return "%d: %s" % (self.nt, self.prods[self.nt])


class Union(DisjointUnionStrategy[NT, Tree]):
    def decomposition_function(self, c):
        return c.kids() if c.prods[c.nt][0] == "u" else None

    def formal_step(self):
        return "union"

    def forward_map(self, comb_class, obj, children=None):
        return tuple(obj[3] if i == obj[2] else None for i in range(len(comb_class.kids())))

    def backward_map(self, comb_class, objs, children=None):
        idx = DisjointUnionStrategy.backward_map_index(objs)
        yield Tree(("u", comb_class.nt, idx, objs[idx]))

    @classmethod
    def from_dict(cls, d):
        return cls()

    def __repr__(self):
        return "Union()"

    def __str__(self):
        return "union"


class Product(CartesianProductStrategy[NT, Tree]):
    def decomposition_function(self, c):
        return c.kids() if c.prods[c.nt][0] == "p" else None

    def formal_step(self):
        return "product"

    def forward_map(self, comb_class, obj, children=None):
        return tuple(obj[2:])

    def backward_map(self, comb_class, objs, children=None):
        yield Tree(("p", comb_class.nt) + tuple(objs))

    @classmethod
    def from_dict(cls, d):
        return cls()

    def __repr__(self):
        return "Product()"

    def __str__(self):
        return "product"


def spec(prods, group_equiv):
    rules = []
    for i, p in enumerate(prods):
        c = NT(prods, i)
        rules.append(AtomStrategy()(c) if p[0] == "a" else (Union() if p[0] == "u" else Product())(c))
    return CombinatorialSpecification(NT(prods, 0), rules, group_equiv=group_equiv)


#        R          m       U[c,m]     c       d       e       E           b          a x c        a
G1 = [["u", [1, 2]], ["u", [3]], ["u", [3, 1]], ["u", [4]], ["u", [5]], ["u", [6]], ["u", [7, 8]], ["a", "b"],
      ["p", [9, 3]], ["a", "a"]]
#        R'         U[m',g]     m'      g       h       k       E'          b          a x m'       a
G2 = [["u", [1, 2]], ["u", [2, 3]], ["u", [3]], ["u", [4]], ["u", [5]], ["u", [6]], ["u", [7, 8]], ["a", "b"],
      ["p", [9, 2]], ["a", "a"]]
# the same with one more summand listing the middle classes of the chain (default group_equiv=True)
G1G = [["u", [10, 1, 2]]] + G1[1:] + [["u", [3, 4, 5]]]
G2G = [["u", [10, 1, 2]]] + G2[1:] + [["u", [5, 3, 4]]]

reproduced = True
for name, a, b, grp in (("uncollapsed (group_equiv=False)", G1, G2, False), ("default group_equiv=True", G1G, G2G, True)):
    s1, s2 = spec(a, grp), spec(b, grp)
    for n in range(1, 5):   # the two start classes have the same numbers of objects
        assert len(list(s1.root.objects_of_size(n))) == len(list(s2.root.objects_of_size(n)))
    fwd, bwd = Isomorphism.check(s1, s2), Isomorphism.check(s2, s1)
    print("%-34s check(spec1, spec2) = %s   check(spec2, spec1) = %s" % (name, fwd, bwd))
    if fwd:
        bij = Bijection.construct(s1, s2)
        for n in range(1, 6):
            objs = list(s1.root.objects_of_size(n))
            imgs = [bij.map(o) for o in objs]
            assert sorted(imgs) == sorted(s2.root.objects_of_size(n)) and [bij.inverse_map(x) for x in imgs] == objs
        print("%-34s (the bijection constructed in the True direction is a correct bijection)" % "")
    reproduced = reproduced and (fwd != bwd)
print("REPRODUCED: Isomorphism.check is not symmetric" if reproduced else "not reproduced (the test is symmetric on both pairs)")
sys.exit(0 if reproduced else 1)
