"""
C19 finding: CombinatorialSpecification.expand_comb_class copies the rules it keeps with
copy.copy — a SHALLOW copy.  Every copied rule of the expanded specification shares

  * its terms_cache and objects_cache objects, and
  * (EquivalenceRule / ReverseRule) its inner `original_rule` object

with the rule of the ORIGINAL specification.  The original is therefore not "left unchanged":
what it answers depends on whether the expanded specification has been used in between.

Run:  PYTHONPATH=/repo /venv/bin/python findings/c19_shared_caches.py
Exit code 1 = the defect is present, 0 = not present (e.g. with findings/c19_detached_copy.diff).

Part A is the repository's own test test_cant_count_unexpanded (tests/test_specification.py) with
two statements swapped: the test asserts that the original still raises NotImplementedError after
expand_verified — true only as long as nobody has counted with the expanded specification.
Part B shows the order of object generation of the original changing.
"""
import logging
import sys

import logzero

import comb_spec_searcher  # noqa: F401
from comb_spec_searcher import CombinatorialSpecificationSearcher, VerificationStrategy
from example import AvoidingWithPrefix, pack

logzero.loglevel(logging.ERROR)
alphabet = ["a", "b"]
bad = []


# ---------------------------------------------------------------- A: raising -> answering
class SomeVerification(VerificationStrategy):
    comb_class = AvoidingWithPrefix("a", ["aa"], alphabet)

    def verified(self, comb_class):
        return comb_class == SomeVerification.comb_class

    def formal_step(self):
        return "Verify"

    def from_dict(self, d):
        raise NotImplementedError

    def get_terms(self, comb_class, n):
        raise NotImplementedError

    def pack(self, comb_class):
        if comb_class == SomeVerification.comb_class:
            return pack
        raise NotImplementedError


spec = CombinatorialSpecificationSearcher(
    AvoidingWithPrefix("", ["aa"], alphabet), pack.add_verification(SomeVerification())
).auto_search()
try:
    spec.count_objects_of_size(10)
    before = "answers"
except NotImplementedError:
    before = "raises NotImplementedError"
new_spec = spec.expand_verified()
assert new_spec.count_objects_of_size(10) == 144
try:
    after = "answers %d" % spec.count_objects_of_size(10)
except NotImplementedError:
    after = "raises NotImplementedError"
print("A: original.count_objects_of_size(10) before: %s; after the expanded specification counted: %s" % (before, after))
if before != after:
    bad.append("A")
shared = [
    str(r.comb_class)
    for r in spec.rules_dict.values()
    for q in new_spec.rules_dict.values()
    if r.comb_class == q.comb_class and r is not q and r.terms_cache is q.terms_cache
]
print("   rules of the two specifications sharing one terms_cache object:", len(shared))


# ---------------------------------------------------------------- B: order of generation
class ReverseOrderVerified(VerificationStrategy):
    """verifies the class with prefix b; lists its objects in reverse lexicographic order"""

    def verified(self, c):
        return (not c.just_prefix) and c.prefix == "b"

    def pack(self, comb_class):
        return pack

    def get_terms(self, c, n):
        from collections import Counter

        k = sum(1 for _ in c.objects_of_size(n))
        return Counter({(): k}) if k else Counter()

    def get_objects(self, c, n):
        from collections import defaultdict

        res = defaultdict(list)
        objs = sorted(c.objects_of_size(n), reverse=True)
        if objs:
            res[()] = objs
        return res

    def formal_step(self):
        return "prefix b"

    @classmethod
    def from_dict(cls, d):
        return cls()


def search():
    return CombinatorialSpecificationSearcher(
        AvoidingWithPrefix("", ["aaa"], alphabet), pack.add_verification(ReverseOrderVerified())
    ).auto_search()


reference = [list(search().generate_objects_of_size(n)) for n in range(6)]
orig = search()
expanded = orig.expand_verified()
for n in range(6):
    list(expanded.generate_objects_of_size(n))
after = [list(orig.generate_objects_of_size(n)) for n in range(6)]
print("B: original generates (n=4)", reference[4])
print("   after expansion + use   ", after[4])
if after != reference:
    bad.append("B")
    assert [sorted(x) for x in after] == [sorted(x) for x in reference]

print("DEFECT PRESENT: %s" % bad if bad else "not present")
sys.exit(1 if bad else 0)
