"""Replay (not a finding): what ForestRuleExtractor.rules() guarantees about the rule handed out for a needed key.
Usage: PYTHONHASHSEED=0 PYTHONPATH=/repo:<verif tree> /venv/bin/python findings/c01_hfound_recheck.py 2000 1
On 2000 forest / forest_noreverse searches of C01 generator, seed 1 (1989 found): literal Hfound (same children) false on 232,
weakened form (children minus EMPTY classes, Spec/EvalDrop.v drops) false on 0."""
import random, sys, collections, logging
logging.disable(logging.CRITICAL)
from harness.universes import runs
from harness.universes import words_ext as W
from harness.props import c01
from comb_spec_searcher.rule_db.forest import ForestRuleExtractor
from comb_spec_searcher.strategies.strategy import EmptyStrategy
from comb_spec_searcher import CombinatorialSpecification

def sublist_drop(small, big, droppable):
    """small is obtained from big by dropping entries whose class is droppable; returns True/False"""
    i = 0
    for e in big:
        if i < len(small) and small[i] == e:
            i += 1
        elif droppable(e[0]):
            continue
        else:
            return False
    return i == len(small)

def main(n, seed):
    rng = random.Random(seed)
    g = c01.gen(rng, "quick")
    cnt = collections.Counter()
    examples = []
    done = 0
    while done < n:
        case = next(g)
        if case["kind"] != "word" or not case["ruledb"].startswith("forest"):
            continue
        done += 1
        css = runs.make_searcher(case)
        random.seed(case.get("tree_seed", 0))
        k = max(1, int(case.get("check_every", 1)))
        more = True
        while more and not css.has_specification():
            for _ in range(k):
                if not css._expand_classes_for(0.0, None, 0, 0)[0]:
                    more = False
                    break
        if not css.has_specification():
            cnt["nospec"] += 1
            continue
        db = css.ruledb
        ex = ForestRuleExtractor(db.root_label, db, db.classdb, db.strategy_pack)
        ex.check()
        cdb = css.classdb
        needed = {rk.parent: rk for rk in ex.needed_rules}
        rules = list(ex.rules(db._rule_cache))
        by_parent = {}
        for r in rules:
            by_parent[cdb.get_label(r.comb_class)] = r
        case_eq, case_weak, case_bad = True, True, False
        for p, rk in needed.items():
            kk = list(zip(rk.children, rk.shifts))
            if p not in by_parent:
                # dropped EmptyStrategy rule: key must have no children and the class be empty
                if kk == [] and cdb.is_empty(cdb.get_class(p), p):
                    cnt["key:empty-rule-dropped"] += 1
                else:
                    cnt["key:NO RULE"] += 1; case_bad = True
                    examples.append((case, p, kk, None))
                continue
            r = by_parent[p]
            rr = list(zip([cdb.get_label(c) for c in r.children], r.shifts()))
            if rr == kk:
                cnt["key:equal"] += 1
            elif sublist_drop(rr, kk, lambda l: cdb.is_empty(cdb.get_class(l), l)):
                cnt["key:sublist-dropping-empty (%s)" % type(r).__name__] += 1
                case_eq = False
                # dropped classes: are they parents of a needed key? with what children?
                dropped = [e for e in kk if e not in rr]
                for (l, s) in dropped:
                    if l in needed:
                        cnt["dropped child has needed key, kids=%d" % len(needed[l].children)] += 1
                    else:
                        cnt["dropped child has NO needed key"] += 1
            else:
                cnt["key:OTHER"] += 1; case_eq = False; case_weak = False
                examples.append((case, p, kk, rr, type(r).__name__))
        extra = set(by_parent) - set(needed)
        if extra:
            cnt["rules without needed key"] += 1
        cnt["case:literal Hfound holds (ungrouped)" if case_eq and not case_bad else "case:literal Hfound FALSE (ungrouped)"] += 1
        cnt["case:weak holds" if case_weak and not case_bad else "case:weak FALSE"] += 1
        # grouped object
        spec = CombinatorialSpecification(css.start_class, rules)
        g_eq = True; g_norule = 0
        for p, rk in needed.items():
            c = cdb.get_class(p)
            if c not in spec.rules_dict:
                g_norule += 1; g_eq = False; continue
            r = spec.rules_dict[c]
            rr = list(zip([cdb.get_label(x) for x in r.children], r.shifts()))
            if rr != list(zip(rk.children, rk.shifts)):
                g_eq = False
        cnt["case:literal Hfound holds (grouped object)" if g_eq else "case:literal Hfound FALSE (grouped object)"] += 1
        if g_norule:
            cnt["case:grouped object hides a needed class"] += 1
    print("searches", done)
    for k_, v in sorted(cnt.items()):
        print("%6d  %s" % (v, k_))
    for e in examples[:5]:
        print("EX", e)

main(int(sys.argv[1]), int(sys.argv[2]))
