"""C20, finding (repaired by fix FIXHASH_EQ; exit 0 on a tree with the fix) product-equation-parameter-collision.

PYTHONPATH=/repo /venv/bin/python findings/c20_product_parameter_collision.py   (exit 1 = defect present)

A product rule in which two parent statistics follow ONE child statistic (k and j both count the a's;
the children track them once, as k): get_terms adds the child's value to both parent statistics, the rule
counts correctly; CartesianProduct.get_equation inverts the dictionary ({child: parent ...}) and keeps only
the LAST parent name.  Uses the word classes of /repo/example.py."""
import sys
from collections import Counter

import sympy

from example import AvoidingWithPrefix, RemoveFrontOfPrefix


class SW(AvoidingWithPrefix):
    def __init__(self, prefix, patterns, alphabet, just_prefix=False, stats=()):
        super().__init__(prefix, patterns, alphabet, just_prefix)
        self.stats = tuple(stats)

    @property
    def extra_parameters(self):
        return tuple(n for n, _ in self.stats)

    def get_parameters(self, obj):
        return tuple(obj.count(l) for _, l in self.stats)

    def get_minimum_value(self, parameter):
        return 0

    def possible_parameters(self, n):
        import itertools

        for vals in itertools.product(range(n + 1), repeat=len(self.stats)):
            yield dict(zip(self.extra_parameters, vals))

    def objects_of_size(self, size, **parameters):
        yield from super().objects_of_size(size)

    def __eq__(self, o):
        return isinstance(o, SW) and AvoidingWithPrefix.__eq__(self, o) and self.stats == o.stats

    def __hash__(self):
        return hash((AvoidingWithPrefix.__hash__(self), self.stats))


class Front(RemoveFrontOfPrefix):
    def decomposition_function(self, c):
        kids = RemoveFrontOfPrefix.decomposition_function(self, c)
        if kids is None:
            return None
        return tuple(SW(k.prefix, k.patterns, k.alphabet, k.just_prefix, (("k", "a"),)) for k in kids)

    def extra_parameters(self, c, children=None):
        return ({"k": "k", "j": "k"}, {"k": "k", "j": "k"})


def series(cls, args, order):
    out = 0
    for n in range(order + 1):
        for w in cls.objects_of_size(n):
            t = args[0] ** n
            for a, v in zip(args[1:], cls.get_parameters(w)):
                t *= a ** v
            out += t
    return out


def holds(eq, classes, order=6):
    from sympy.core.function import AppliedUndef

    x = sympy.var("x")
    m = {f: series(classes[int(f.func.__name__[2:])], f.args, order) for f in eq.atoms(AppliedUndef)}
    d = sympy.expand(eq.lhs.xreplace(m) - eq.rhs.xreplace(m))
    return d == 0 or all(sympy.degree(t, x) > order for t in sympy.Add.make_args(d))


parent = SW("ba", ["bb"], ["a", "b"], False, (("k", "a"), ("j", "a")))
rule = Front()(parent)
classes = {0: parent, 1: rule.children[0], 2: rule.children[1]}
label = {c: i for i, c in classes.items()}.__getitem__
for n in range(7):
    got = rule.constructor.get_terms(parent.get_terms, tuple(c.get_terms for c in rule.children), n)
    assert Counter(got) == Counter(parent.get_terms(n)), (n, got, parent.get_terms(n))
print("rule is genuine (get_terms) up to size 6")
eq = rule.get_equation(lambda c: c.get_function(label))
ok = holds(eq, classes)
k, j = sympy.symbols("k j")
F1, F2 = (sympy.Function("F_%d" % i) for i in (1, 2))
right = sympy.Eq(eq.lhs, F1(sympy.var("x"), k * j) * F2(sympy.var("x"), k * j))
print("emitted %s   satisfied: %s" % (eq, ok))
print("with the child variable := k*j  %s   satisfied: %s" % (right, holds(right, classes)))
sys.exit(0 if ok else 1)
