"""
C11 ("each extracted key can be turned back into a concrete rule of the pack with the same key"):
ForestRuleExtractor._find_rule cannot re-create a rule that a StrategyFactory produced for ANOTHER
class than the one it was applied to (a rule with a foreign parent; the searcher supports such rules:
_expand_class_with_strategy labels rule.comb_class) when no strategy of the pack produces that rule on
a class of the key: _find_rule replays the pack on the parent and the children of the key only and
raises RuntimeError("Can't find a rule for ForestRuleKey(...)"), so get_specification() fails for
RuleDBForest (with and without reverse rules) while the default RuleDB returns the specification.
Same root cause as the open C14 finding forget-foreign-parent-outside-key (RuleDBForgetStrategy).

Model: Props/C11.v C11_find_rule_not_found / C11_find_rule_foreign_parent_fails (the failing case is
exactly "no candidate re-created from a class of the key has the key"); C11_find_rule_total proves that
every other inserted key IS re-created.

Run:  PYTHONPATH=/repo /venv/bin/python c11_find_rule_foreign_parent.py
Exit code 0 = every extracted key is turned back into a rule (property holds); 1 = it is not.
"""
import logging
import sys

import logzero

from comb_spec_searcher import AtomStrategy, CombinatorialSpecificationSearcher, StrategyPack
from comb_spec_searcher.rule_db import RuleDB, RuleDBForest
from comb_spec_searcher.strategies.strategy import StrategyFactory
from example import AvoidingWithPrefix, ExpansionStrategy, RemoveFrontOfPrefix

logzero.loglevel(logging.ERROR)


class ExpandEmptyPrefix(ExpansionStrategy):
    """ExpansionStrategy restricted to classes with the empty prefix."""

    def decomposition_function(self, c):
        if c.prefix:
            return None
        return super().decomposition_function(c)


def swap(w):
    return "".join("b" if x == "a" else "a" for x in w)


class SwappedExpansionFactory(StrategyFactory):
    """Applied to the class with prefix p it yields the expansion RULE of the class with prefix swap(p):
    a ready rule whose parent is not the class the factory was called on."""

    def __call__(self, comb_class):
        if comb_class.prefix and not comb_class.just_prefix:
            other = AvoidingWithPrefix(swap(comb_class.prefix), comb_class.patterns, comb_class.alphabet)
            yield ExpansionStrategy()(other)

    @classmethod
    def from_dict(cls, d):
        return cls()

    def __repr__(self):
        return "SwappedExpansionFactory()"

    def __str__(self):
        return "expansion of the class with the letters of the prefix exchanged"


def pack():
    return StrategyPack(
        initial_strats=[RemoveFrontOfPrefix(), ExpandEmptyPrefix()],
        inferral_strats=[],
        expansion_strats=[[SwappedExpansionFactory()]],
        ver_strats=[AtomStrategy()],
        name="foreign parent",
    )


def run(ruledb):
    start = AvoidingWithPrefix("", ["aa", "bb"], ["a", "b"])
    css = CombinatorialSpecificationSearcher(start, pack(), ruledb=ruledb)
    try:
        spec = css.auto_search()
        counts = [spec.count_objects_of_size(n) for n in range(8)]
        return True, "specification with %d rules, counts %r" % (spec.number_of_rules(), counts)
    except Exception as ex:  # pylint: disable=broad-except
        return False, "%s: %s" % (type(ex).__name__, str(ex).split("\n")[0][:140])


if __name__ == "__main__":
    ok0, a = run(RuleDB())
    ok1, b = run(RuleDBForest(reverse=False))
    ok2, c = run(RuleDBForest(reverse=True))
    print("RuleDB                     :", a)
    print("RuleDBForest(reverse=False):", b)
    print("RuleDBForest(reverse=True) :", c)
    if ok0 and ok1 and ok2:
        print("every extracted key was turned back into a rule")
        sys.exit(0)
    print("C11 violated: an extracted forest key cannot be turned back into a rule of the pack")
    sys.exit(1)
